#![no_main]
//! C04 (+ C14 through ASan / debug assertions): per-sequence oligo vector against model counts.
use libfuzzer_sys::fuzz_target;
#[path = "../../harness/src/fuzzdecode.rs"]
mod fuzzdecode;
#[path = "../../harness/src/model.rs"]
mod model;
use composition::oligo::OligoComputer;
use std::cell::RefCell;
use std::collections::HashMap;

thread_local! {
    static OC: RefCell<HashMap<(usize, bool), (OligoComputer, model::RankTable)>> = RefCell::new(HashMap::new());
}

fuzz_target!(|data: &[u8]| {
    let (k, norm, seq) = match fuzzdecode::oligo(data) {
        Some(x) => x,
        None => return,
    };
    OC.with(|m| {
        let mut m = m.borrow_mut();
        let (oc, rt) = m.entry((k, norm)).or_insert_with(|| {
            let mut oc = OligoComputer::new("unused.fa".into(), "unused.out".into(), k);
            oc.set_norm(norm);
            (oc, model::RankTable::new(k))
        });
        let got = oc.verif_vectorise_one(&seq);
        let (counts, total) = model::oligo_counts(&seq, rt);
        assert_eq!(got.len(), counts.len(), "C04 vector-width");
        for (g, c) in got.iter().zip(counts.iter()) {
            let want = if norm { if total == 0 { 0.0 } else { *c as f64 / total as f64 } } else { *c as f64 };
            assert!((g - want).abs() <= 1e-12, "C04 value k={} norm={}", k, norm);
        }
        let rc = oc.verif_vectorise_one(&model::revcomp_text(&seq));
        assert!(rc.iter().zip(got.iter()).all(|(a, b)| (a - b).abs() <= 1e-12), "C04 invariance-revcomp");
    });
});
