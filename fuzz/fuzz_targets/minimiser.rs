#![no_main]
//! C09 + C18: both minimiser iterators against the model.
use libfuzzer_sys::fuzz_target;
#[path = "../../harness/src/fuzzdecode.rs"]
mod fuzzdecode;
#[path = "../../harness/src/model.rs"]
mod model;
use kmer::kmer_minimisers::KmerMinimiserGenerator;
use kmer::minimiser::MinimiserGenerator;

fuzz_target!(|data: &[u8]| {
    let (w, m, seq) = match fuzzdecode::minimiser(data) {
        Some(x) => x,
        None => return,
    };
    let want = model::minimiser_runs(&seq, w, m);
    let got: Vec<(u64, usize, usize)> = MinimiserGenerator::new(&seq, w, m).collect();
    assert!(got == want, "C09 runs-differ w={} m={}", w, m);
    if w <= 31 {
        let full: Vec<(u64, usize, usize, Vec<u64>)> = KmerMinimiserGenerator::new(&seq, w, m).collect();
        let runs: Vec<(u64, usize, usize)> = full.iter().map(|r| (r.0, r.1, r.2)).collect();
        assert!(runs == got, "C18 runs-differ-from-plain w={} m={}", w, m);
        let concat: Vec<u64> = full.iter().flat_map(|r| r.3.iter().copied()).collect();
        assert!(concat == model::canonical_stream(&seq, w), "C18 wmers w={} m={}", w, m);
    }
});
