#![no_main]
//! C06 (in-memory part): serialise decoded records, read them back through ktio::seq::Sequences.
use libfuzzer_sys::fuzz_target;
#[path = "../../harness/src/fuzzdecode.rs"]
mod fuzzdecode;
use ktio::seq::{SeqFormat, Sequences};
use std::io::BufReader;

fuzz_target!(|data: &[u8]| {
    let f = match fuzzdecode::fastx(data) {
        Some(x) => x,
        None => return,
    };
    let text = fuzzdecode::fastx_text(&f);
    let fmt = if f.fastq { SeqFormat::Fastq } else { SeqFormat::Fasta };
    let got: Vec<(usize, String, Vec<u8>)> = Sequences::new(fmt, BufReader::new(&text[..])).unwrap().map(|s| (s.n, s.id, s.seq)).collect();
    assert_eq!(got.len(), f.recs.len(), "C06 record-count");
    for (i, (g, r)) in got.iter().zip(f.recs.iter()).enumerate() {
        assert!(g.0 == i && g.1 == r.id && g.2 == r.seq, "C06 record {} differs", i);
    }
    let st = Sequences::seq_stats(fmt, BufReader::new(&text[..]));
    assert!(st.seq_count == f.recs.len() && st.total_length == f.recs.iter().map(|r| r.seq.len()).sum::<usize>(), "C06 stats");
});
