#![no_main]
//! C01 + C02(b): k-mer iterator against the window-scan model, strand symmetry.
use libfuzzer_sys::fuzz_target;
#[path = "../../harness/src/fuzzdecode.rs"]
mod fuzzdecode;
#[path = "../../harness/src/model.rs"]
mod model;
use kmer::kmer::KmerGenerator;

fuzz_target!(|data: &[u8]| {
    let (k, seq) = match fuzzdecode::kmer_iter(data) {
        Some(x) => x,
        None => return,
    };
    let got: Vec<(u64, u64)> = KmerGenerator::new(&seq, k).collect();
    let want = model::windows(&seq, k);
    assert_eq!(got.len(), want.len(), "C01 count-mismatch k={}", k);
    for ((f, r), (_, mf, mr)) in got.iter().zip(want.iter()) {
        assert!(f == mf && r == mr, "C01 code-mismatch k={}", k);
        assert!(*f < model::pow4(k));
    }
    // C02: stream of the reverse-complemented text is the mirrored stream
    let rc = model::revcomp_text(&seq);
    let rev: Vec<(u64, u64)> = KmerGenerator::new(&rc, k).collect();
    let mirrored: Vec<(u64, u64)> = got.iter().rev().map(|&(f, r)| (r, f)).collect();
    assert!(rev == mirrored, "C02 stream-symmetry k={}", k);
});
