#![no_main]
//! C11: whole-sequence CGR against the exact dyadic model; foreign bytes must be refused.
use libfuzzer_sys::fuzz_target;
#[path = "../../harness/src/fuzzdecode.rs"]
mod fuzzdecode;
#[path = "../../harness/src/model.rs"]
mod model;
use composition::cgr::CgrComputer;

fuzz_target!(|data: &[u8]| {
    let (s, seq) = match fuzzdecode::cgr(data) {
        Some(x) => x,
        None => return,
    };
    let cc = CgrComputer::new("unused.fa".into(), "unused.out".into(), s as usize);
    let r = cc.verif_vectorise_one(&seq);
    match model::cgr_points(&seq, s) {
        None => assert!(r.is_err(), "C11 foreign-byte-accepted"),
        Some(want) => {
            let got = r.expect("C11 nucleotides-rejected");
            assert_eq!(got.len(), want.len(), "C11 point-count");
            let tol = s as f64 * 2f64.powi(-48);
            for (g, w) in got.iter().zip(want.iter()) {
                for (gv, (wv, exact)) in [(g.0, w.0), (g.1, w.1)] {
                    assert!(if exact { gv == wv } else { (gv - wv).abs() <= tol }, "C11 point-value S={}", s);
                }
            }
        }
    }
});
