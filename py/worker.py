#!/usr/bin/env python3
"""Line-JSON worker exposing the Python bindings to the Rust harness (C03 header leg, C04 Python leg)."""
import json, math, os, sys

sys.path.insert(0, os.environ.get("VERIF_PYDIR", "/verif/.build/py"))
import pykmertools as pk  # noqa: E402

computers = {}


def fin(v):
    """JSON has no NaN / infinity: they travel as text (the harness reads any non-number as NaN)"""
    return [x if math.isfinite(x) else repr(x) for x in v]


def get_seq(req, enc="utf-8"):
    """the sequence of a request: hex text, or the compact description of a giant sequence"""
    g = req.get("giant")
    if g is None:
        return bytes.fromhex(req["seq"]).decode(enc)
    unit = bytes.fromhex(g["unit"]) or b"A"
    n = g["len"]
    buf = bytearray((unit * (n // len(unit) + 1))[:n])
    for f, ln in g.get("gaps", []):
        if n > 0:
            p0 = min((f * n) >> 32, n - 1)
            buf[p0:min(p0 + ln, n)] = b"N" * (min(p0 + ln, n) - p0)
    for f, b in g["edits"]:
        if n > 0:
            buf[min((f * n) >> 32, n - 1)] = b
    return bytes(buf).decode(enc)


for line in sys.stdin:
    line = line.strip()
    if not line:
        continue
    req = json.loads(line)
    try:
        k = req.get("k", 1)
        oc = None
        if req["op"] in ("header", "oligo", "oligo_batch"):
            oc = computers.get(k)
            if oc is None:
                oc = computers[k] = pk.OligoComputer(k)
        if req["op"] == "header":
            resp = {"ok": oc.get_header()}
        elif req["op"] == "oligo":
            seq = get_seq(req)
            resp = {"ok": fin(oc.vectorise_one(seq, req["norm"]))}
        elif req["op"] == "oligo_batch":
            seqs = [bytes.fromhex(s).decode("utf-8") for s in req["seqs"]]
            resp = {"ok": [fin(r) for r in oc.vectorise_batch(seqs, req["norm"])]}
        elif req["op"] == "kmers":
            seq = get_seq(req)
            resp = {"ok": [list(t) for t in pk.KmerGenerator(seq, k)]}
        elif req["op"] == "kmers_digest":
            # for giant sequences: number of items and a position-sensitive digest instead of the list
            seq = get_seq(req)
            n = 0
            h = 0
            for f, r in pk.KmerGenerator(seq, k):
                h = (h * 1000003 + f * 31 + r) & 0xFFFFFFFFFFFFFFFF
                n += 1
            resp = {"ok": [n, h]}
        elif req["op"] == "mins":
            seq = get_seq(req)
            resp = {"ok": [list(t) for t in pk.MinimiserGenerator(seq, req["w"], req["m"])]}
        elif req["op"] == "acgt_loop":
            # decoding while iterating, on the same object: [f, r, to_acgt(f), to_acgt(r)] per item, then once more
            # the first item's codes after the loop
            seq = get_seq(req)
            kg = pk.KmerGenerator(seq, k)
            rows = []
            for f, r in kg:
                rows.append([f, r, kg.to_acgt(f), kg.to_acgt(r)])
            after = [kg.to_acgt(rows[0][0]), kg.to_acgt(rows[0][1])] if rows else []
            mg = pk.MinimiserGenerator(seq, req["w"], req["m"])
            mrows = []
            for v, s0, e0 in mg:
                mrows.append([v, mg.to_acgt(v)])
            resp = {"ok": {"kmers": rows, "after": after, "mins": mrows}}
        elif req["op"] == "acgt_many":
            # many codes decoded one after the other on ONE object of each class
            kg = pk.KmerGenerator("ACGT", k)
            mg = pk.MinimiserGenerator("ACGT", k, k)
            resp = {"ok": [[kg.to_acgt(x), mg.to_acgt(x)] for x in req["codes"]]}
        elif req["op"] == "header_mut":
            # the caller edits the list it got; later answers (same computer, new computer) must not change
            a = pk.OligoComputer(k)
            h1 = a.get_header()
            e = req["edit"] % 6
            if e == 0:
                h1.insert(0, "seq_id")
            elif e == 1:
                h1.append("label")
            elif e == 2:
                h1.sort(reverse=True)
            elif e == 3 and h1:
                del h1[0]
            elif e == 4 and h1:
                h1[len(h1) // 2] = "X"
            else:
                h1.clear()
            resp = {"ok": [a.get_header(), pk.OligoComputer(k).get_header()]}
        elif req["op"] == "temporaries":
            # strings that live only for the constructor call (equal length, different content), one after the other
            # the bytes exist beforehand; each str exists only during its constructor call, and the next one (same
            # length) is allocated right after the previous one was freed: the allocator hands out the same block
            bs = [bytes.fromhex(h) for h in req["seqs"]]
            ks, ms = [], []
            for b in bs:
                ks.append([list(t) for t in pk.KmerGenerator(b.decode("utf-8"), k)])
            for b in bs:
                ms.append([list(t) for t in pk.MinimiserGenerator(b.decode("utf-8"), req["w"], req["m"])])
            # all objects built back to back (nothing but the small generator object is allocated between two
            # constructor calls), iterated afterwards
            gens = [pk.KmerGenerator(b.decode("utf-8"), k) for b in bs]
            mgens = [pk.MinimiserGenerator(b.decode("utf-8"), req["w"], req["m"]) for b in bs]
            ks2 = [[list(t) for t in g] for g in gens]
            ms2 = [[list(t) for t in g] for g in mgens]
            for i in range(len(bs)):
                if ks2[i] != ks[i]:
                    ks[i] = ks2[i]
                if ms2[i] != ms[i]:
                    ms[i] = ms2[i]
            # once more without keeping the items (no allocations between two constructor calls)
            counts = [sum(1 for _ in pk.KmerGenerator(b.decode("utf-8"), k)) for b in bs]
            mcounts = [sum(1 for _ in pk.MinimiserGenerator(b.decode("utf-8"), req["w"], req["m"])) for b in bs]
            resp = {"ok": [[ks[i], ms[i], counts[i], mcounts[i]] for i in range(len(bs))]}
        elif req["op"] == "py_session":
            # one iterator object driven by a script: ["next", n] | ["list"] | ["iter"] | ["for", n] (loop left after n items)
            seq = get_seq(req)
            g = pk.KmerGenerator(seq, k) if req["kind"] == "kmer" else pk.MinimiserGenerator(seq, req["w"], req["m"])
            out = []
            for step in req["script"]:
                got = []
                if step[0] == "next":
                    for _ in range(step[1]):
                        try:
                            got.append(list(next(g)))
                        except StopIteration:
                            got.append(None)
                            break
                elif step[0] == "list":
                    got = [list(t) for t in g]
                elif step[0] == "iter":
                    it = iter(g)
                    got = [it is g]
                elif step[0] == "for":
                    n = 0
                    for t in g:
                        got.append(list(t))
                        n += 1
                        if n >= step[1]:
                            break
                out.append(got)
            resp = {"ok": out}
        elif req["op"] == "acgt":
            resp = {"ok": [pk.KmerGenerator("", k).to_acgt(req["x"]), pk.MinimiserGenerator("", k, k).to_acgt(req["x"])]}
        elif req["op"] == "cgr":
            seq = get_seq(req)
            try:
                resp = {"ok": [fin(p) for p in pk.CgrComputer(req["s"]).vectorise_one(seq)]}
            except ValueError as e:
                resp = {"value_error": str(e)}
        else:
            resp = {"err": "unknown op"}
    except Exception as e:  # noqa: BLE001
        resp = {"err": f"{type(e).__name__}: {e}"}
    sys.stdout.write(json.dumps(resp) + "\n")
    sys.stdout.flush()
