#!/usr/bin/env python3
"""Line-JSON worker exposing the Python bindings to the Rust harness (C03 header leg, C04 Python leg)."""
import json, os, sys

sys.path.insert(0, os.environ.get("VERIF_PYDIR", "/verif/.build/py"))
import pykmertools as pk  # noqa: E402

computers = {}
for line in sys.stdin:
    line = line.strip()
    if not line:
        continue
    req = json.loads(line)
    try:
        k = req.get("k", 1)
        oc = computers.get(k)
        if oc is None:
            oc = computers[k] = pk.OligoComputer(k)
        if req["op"] == "header":
            resp = {"ok": oc.get_header()}
        elif req["op"] == "oligo":
            seq = bytes.fromhex(req["seq"]).decode("ascii")
            resp = {"ok": oc.vectorise_one(seq, req["norm"])}
        elif req["op"] == "oligo_batch":
            seqs = [bytes.fromhex(s).decode("ascii") for s in req["seqs"]]
            resp = {"ok": oc.vectorise_batch(seqs, req["norm"])}
        else:
            resp = {"err": "unknown op"}
    except Exception as e:  # noqa: BLE001
        resp = {"err": f"{type(e).__name__}: {e}"}
    sys.stdout.write(json.dumps(resp) + "\n")
    sys.stdout.flush()
