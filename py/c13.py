#!/usr/bin/env python3
"""C13 - Python bindings compute exactly what the Rust core computes.

Hypothesis suite, run with python3-vt by `vh shard C13` (see harness/src/props/c13.rs).
Oracle: the Rust core built from the same tree, reached through `vh oracle-server`.
"""
import argparse, gc, json, os, subprocess, sys, time, zlib

sys.path.insert(0, os.environ.get("VERIF_PYDIR", "/verif/.build/py"))
import pykmertools as pk  # noqa: E402
from hypothesis import given, seed, settings, strategies as st, HealthCheck, Phase  # noqa: E402

# ------------------------------------------------------------------------------------------------
# oracle


class Oracle:
    def __init__(self):
        self.p = subprocess.Popen([os.environ["VERIF_VH"], "oracle-server"], stdin=subprocess.PIPE, stdout=subprocess.PIPE, text=True, bufsize=1)

    def ask(self, **req):
        if "seq" in req:
            req["seq"] = req["seq"].encode("utf-8").hex()
        self.p.stdin.write(json.dumps(req) + "\n")
        self.p.stdin.flush()
        line = self.p.stdout.readline()
        if not line:
            raise RuntimeError("oracle server died")
        return json.loads(line)


ORACLE = None

# ------------------------------------------------------------------------------------------------
# bookkeeping

STATE = {
    "evaluations": 0, "hashes": set(), "classes": {}, "legs": {}, "samples": [], "failures": [], "inconclusive": [],
    "counting": True, "last_fail": None, "journal": None, "leg": None,
}


class Violation(AssertionError):
    def __init__(self, sig, msg):
        super().__init__(msg)
        self.sig, self.msg = sig, msg


def begin(leg, case):
    """called at the start of every example: journal + counting"""
    STATE["leg"] = leg
    if STATE["journal"]:
        with open(STATE["journal"], "w") as f:
            json.dump({"property": "C13", "leg": leg, "case": case}, f)
    if STATE["counting"]:
        STATE["evaluations"] += 1
        l = STATE["legs"].setdefault(leg, {"evaluations": 0, "nontrivial": 0, "wall_s": 0.0})
        l["evaluations"] += 1


def note(leg, case, nontrivial, classes):
    if not STATE["counting"]:
        return
    for c in classes:
        STATE["classes"][c] = STATE["classes"].get(c, 0) + 1
    if nontrivial:
        h = zlib.crc32(json.dumps([leg, case], sort_keys=True).encode()) | (zlib.adler32(json.dumps(case, sort_keys=True).encode()) << 32)
        if h not in STATE["hashes"]:
            STATE["hashes"].add(h)
            l = STATE["legs"][leg]
            l["nontrivial"] += 1
            n = sum(1 for s in STATE["samples"] if s["leg"] == leg)
            if n < 2:
                shown = case if len(json.dumps(case)) < 1200 else {"truncated": json.dumps(case)[:1200]}
                STATE["samples"].append({"leg": leg, "case": shown, "classes": classes})


def violation(leg, case, sig, msg):
    STATE["counting"] = False
    STATE["last_fail"] = {"leg": leg, "case": case, "sig": sig, "msg": msg[:3000]}
    raise Violation(sig, msg)


def non_ascii(s):
    return any(ord(c) > 127 for c in s)


# ------------------------------------------------------------------------------------------------
# strategies

NUC = "ACGTUacgtu"
MIXED = NUC + "NnRYKMSWBDHVXry-*. \t0189"
nuc_text = st.text(alphabet=NUC, max_size=400)
mixed_text = st.text(alphabet=MIXED, max_size=400)
uni_text = st.text(alphabet=st.characters(min_codepoint=4, blacklist_categories=("Cs",)), max_size=120)
# mostly nucleotides with a few arbitrary characters sprinkled in
sprinkled = st.lists(st.one_of(st.text(alphabet=NUC, min_size=1, max_size=40), st.characters(min_codepoint=4, blacklist_categories=("Cs",))), max_size=30).map("".join)
# the code points U+0000..U+0003: the core's k-mer tables read the raw bytes 0-3 as pre-encoded bases while its
# CGR and oligo routines do not; whatever the core does, the binding must do the same (differential oracle)
raw_sprinkled = st.lists(st.one_of(st.text(alphabet=NUC, min_size=1, max_size=30), st.sampled_from(["\x00", "\x01", "\x02", "\x03"])), min_size=1, max_size=20).map("".join)
# characters worth meeting (py/confusables.txt): low byte equal to a nucleotide letter, case mappings / compatibility
# and canonical decompositions containing one, look-alikes, white space and zero-width characters
CONFUSABLES = [chr(int(l, 16)) for l in open(os.path.join(os.path.dirname(os.path.abspath(__file__)), "confusables.txt")) if l.strip()]
confusable_sprinkled = st.lists(st.one_of(st.text(alphabet=NUC, min_size=1, max_size=30), st.sampled_from(CONFUSABLES)), min_size=1, max_size=24).map("".join)
# nucleotides with a few of the usual non-nucleotide characters of sequence files (ambiguity codes, gaps, stops, blanks)
mixed_sprinkled = st.lists(st.one_of(st.text(alphabet=NUC, min_size=1, max_size=30), st.sampled_from(list("NnRYKMSWBDHVXry-*. \t0189\r\n"))), min_size=1, max_size=16).map("".join)
any_text = st.one_of(nuc_text, mixed_text, uni_text, sprinkled, raw_sprinkled, confusable_sprinkled, mixed_sprinkled)


def long_text(w):
    """at least w characters (so that full windows exist), nucleotides with at most one foreign character"""
    def put(t):
        base, pos, ch = t
        if not ch or not base:
            return base
        p = pos % len(base)
        return base[:p] + ch + base[p + 1:]
    return st.tuples(st.text(alphabet=NUC, min_size=w, max_size=w + 200), st.one_of(st.just(0), st.integers(0, 10_000)), st.sampled_from(["", "", "N", "n", "-", "\u00e9", " ", "\t", "\n", "\u3000", "\u00a0"])).map(put)


k_st = st.one_of(st.integers(1, 31), st.sampled_from([1, 2, 15, 16, 17, 30, 31]))


@st.composite
def wm_st(draw):
    m = draw(st.one_of(st.integers(1, 31), st.sampled_from([1, 2, 7, 16, 28, 31])))
    d = draw(st.one_of(st.integers(0, 8), st.integers(0, 60)))
    return (m + d, m)


def _big(t):
    base, n = t
    # n distinct-ish elements built from a few generated ones (rotation by the index keeps order visible)
    out = []
    for i in range(n):
        b = base[i % len(base)]
        r = i % (len(b) or 1)
        out.append(b[r:] + b[:r] + NUC[i % 4] * (i % 7))
    return out


def _skewed(t):
    shorts, longs, places = t
    # many short elements and a few very long ones at generated places (length-aware scheduling of batches)
    out = list(shorts)
    for l, p in zip(longs, places):
        out.insert(p % (len(out) + 1), l)
    return out


def batch_st(elem):
    big = st.tuples(st.lists(st.text(alphabet=NUC, min_size=1, max_size=30), min_size=1, max_size=5), st.one_of(st.integers(1000, 2000), st.sampled_from([64, 128, 256, 512, 1000, 1024, 2000, 2048, 3072, 4096]))).map(_big)
    skewed = st.tuples(st.lists(st.text(alphabet=NUC, min_size=5, max_size=30), min_size=64, max_size=300),
                       st.lists(st.text(alphabet="ACGT", min_size=1500, max_size=6000), min_size=1, max_size=3),
                       st.lists(st.integers(0, 10_000), min_size=3, max_size=3)).map(_skewed)
    small = st.one_of(st.lists(elem, max_size=50), st.lists(elem, min_size=2, max_size=8))
    # the same string several times in one batch (reads sequenced twice): positions chosen by the strategy
    repeated = st.tuples(st.lists(elem, min_size=1, max_size=6), st.lists(st.integers(0, 5), min_size=2, max_size=12)).map(lambda t: [t[0][i % len(t[0])] for i in t[1]])
    small = st.one_of(small, small, repeated)
    return st.integers(0, 19).flatmap(lambda i: big if i == 0 else (skewed if i == 1 else small))


def oracle_subset(n):
    """indices whose per-sequence result is compared with the core (all of them for small batches)"""
    if n <= 60:
        return set(range(n))
    step = max(1, n // 24)
    return set(range(0, n, step)) | {n - 1}


# ------------------------------------------------------------------------------------------------
# checks (plain functions of the case: used by Hypothesis and by --replay)


def chk_kmers(case):
    leg = "kmer-iterator"
    begin(leg, case)
    s, k = case["seq"], case["k"]
    obj = pk.KmerGenerator(s, k)
    got = [tuple(x) for x in obj]
    want = [tuple(x) for x in ORACLE.ask(op="kmers", seq=s, k=k)["ok"]]
    note(leg, case, bool(want) and non_ascii(s), (["non-ascii"] if non_ascii(s) else []) + ([">256-items"] if len(want) > 256 else []))
    if got != want:
        violation(leg, case, "kmer-iterator-differs", f"binding yields {len(got)} items, core {len(want)}; first difference at {next((i for i, (a, b) in enumerate(zip(got, want)) if a != b), min(len(got), len(want)))}")
    # the object pulled again after its end: the core iterator has nothing more (a binding that starts over is tolerated)
    again = [tuple(x) for x in obj]
    if again and again != want:
        violation(leg, case, "kmer-iterator-after-its-end", f"pulled again after its end the binding yields {len(again)} items that are neither nothing nor the {len(want)} items of the core")


def chk_acgt(case):
    leg = "to-acgt"
    begin(leg, case)
    k, x = case["k"], case["x"]
    got = pk.KmerGenerator("", k).to_acgt(x)
    want = ORACLE.ask(op="acgt", x=x, k=k)["ok"]
    got2 = pk.MinimiserGenerator("", k, k).to_acgt(x)
    note(leg, case, False, [])
    if got != want or got2 != want:
        violation(leg, case, "to-acgt-differs", f"to_acgt({x}) with k={k}: {got!r} / {got2!r} vs core {want!r}")


def chk_mins(case):
    leg = "minimiser-iterator"
    begin(leg, case)
    s, w, m = case["seq"], case["w"], case["m"]
    obj = pk.MinimiserGenerator(s, w, m)
    got = [tuple(x) for x in obj]
    want = [tuple(x) for x in ORACLE.ask(op="mins", seq=s, w=w, m=m)["ok"]]
    note(leg, case, bool(want) and non_ascii(s), ["non-ascii"] if non_ascii(s) else [])
    if got != want:
        violation(leg, case, "minimiser-iterator-differs", f"binding {got[:6]} ... ({len(got)}) vs core {want[:6]} ... ({len(want)})")
    again = [tuple(x) for x in obj]
    if again and again != want:
        violation(leg, case, "minimiser-iterator-after-its-end", f"pulled again after its end the binding yields {len(again)} items that are neither nothing nor the {len(want)} items of the core")


def close(a, b, tol=1e-12):
    return len(a) == len(b) and all(abs(x - y) <= tol for x, y in zip(a, b))


def chk_oligo(case):
    leg = "oligo"
    begin(leg, case)
    seqs, k, norm = case["seqs"], case["k"], case["norm"]
    oc = pk.OligoComputer(k)
    hdr = oc.get_header()
    want_hdr = ORACLE.ask(op="header", k=k)["ok"]
    if hdr != want_hdr:
        violation(leg, case, "header-differs", f"k={k}: binding header differs from the core header (len {len(hdr)} vs {len(want_hdr)})")
    singles = []
    sub = oracle_subset(len(seqs))
    for i, s in enumerate(seqs):
        got = oc.vectorise_one(s, norm)
        want = ORACLE.ask(op="oligo", seq=s, k=k, norm=norm)["ok"] if i in sub else got
        if not close(got, want):
            j = next((j for j, (a, b) in enumerate(zip(got, want)) if abs(a - b) > 1e-12), None)
            violation(leg, case, "oligo-vector-differs", f"sequence {i}: column {j}: binding {got[j] if j is not None else len(got)} vs core {want[j] if j is not None else len(want)}")
        singles.append(got)
    batch = oc.vectorise_batch(list(seqs), norm)
    nz = any(any(v != 0 for v in r) for r in singles)
    cl = (["batch>=2"] if len(seqs) >= 2 else []) + (["batch-large"] if len(seqs) >= 1000 else []) + (["batch-empty"] if not seqs else []) + (["non-ascii"] if any(non_ascii(s) for s in seqs) else [])
    note(leg, case, nz and (len(seqs) >= 2 or any(non_ascii(s) for s in seqs)), cl)
    if len(batch) != len(singles) or any(not close(a, b, 0.0) for a, b in zip(batch, singles)):
        j = next((j for j, (a, b) in enumerate(zip(batch, singles)) if not close(a, b, 0.0)), None)
        violation(leg, case, "oligo-batch-order", f"vectorise_batch differs from the list of per-sequence results (len {len(batch)} vs {len(singles)}, first differing element {j})")
    if norm is True:
        # the documented default of `norm` is True
        if seqs and not close(oc.vectorise_one(seqs[0]), singles[0], 0.0):
            violation(leg, case, "oligo-default-norm", "vectorise_one(seq) differs from vectorise_one(seq, True)")


def chk_cgr(case):
    leg = "cgr"
    begin(leg, case)
    seqs, S = case["seqs"], case["s"]
    cc = pk.CgrComputer(S)
    singles, bad = [], False
    sub = oracle_subset(len(seqs))
    for i, s in enumerate(seqs):
        # big batches are built from nucleotide-only elements: outside the sampled subset the core's answer is not needed for acceptance
        want = ORACLE.ask(op="cgr", seq=s, s=S) if (i in sub or any(c not in NUC for c in s)) else None
        try:
            got = [tuple(p) for p in cc.vectorise_one(s)]
            err = None
        except ValueError as e:
            got, err = None, e
        except BaseException as e:  # noqa: BLE001
            violation(leg, case, "cgr-wrong-exception", f"sequence {i}: {type(e).__name__} instead of ValueError: {e}")
        if want is None:
            if err is not None:
                violation(leg, case, "cgr-valid-rejected", f"sequence {i}: a nucleotide-only string was rejected: {err}")
            singles.append(got)
            continue
        if "err" in want:
            bad = True
            if err is None:
                violation(leg, case, "cgr-bad-nucleotide-accepted", f"sequence {i}: the core rejects it ({want['err']}) but the binding returned {len(got)} points")
            singles.append(None)
        else:
            if err is not None:
                violation(leg, case, "cgr-valid-rejected", f"sequence {i}: the core accepts it but the binding raised {err}")
            w = [tuple(p) for p in want["ok"]]
            if got != w:
                j = next((j for j, (a, b) in enumerate(zip(got, w)) if a != b), None)
                violation(leg, case, "cgr-points-differ", f"sequence {i}: point {j}: binding {got[j] if j is not None else len(got)} vs core {w[j] if j is not None else len(w)}")
            singles.append(got)
    try:
        batch = [[tuple(p) for p in row] for row in cc.vectorise_batch(list(seqs))]
        berr = None
    except ValueError as e:
        batch, berr = None, e
    cl = (["batch>=2"] if len(seqs) >= 2 else []) + (["batch-large"] if len(seqs) >= 1000 else []) + (["reject"] if bad else []) + (["non-ascii"] if any(non_ascii(s) for s in seqs) else [])
    note(leg, case, any(s for s in seqs) and (len(seqs) >= 2 or any(non_ascii(s) for s in seqs)), cl)
    if bad and berr is None:
        violation(leg, case, "cgr-batch-bad-accepted", "vectorise_batch returned a result although one element holds a bad nucleotide")
    if bad:
        # the refusal must leave the object usable: the valid elements alone, on the SAME object, right afterwards
        good = [s for s, r in zip(seqs, singles) if r is not None]
        want_good = [r for r in singles if r is not None]
        try:
            again = [[tuple(p) for p in row] for row in cc.vectorise_batch(good)]
        except BaseException as e:  # noqa: BLE001
            violation(leg, case, "cgr-batch-after-refusal", f"after a refused batch the same object raises {type(e).__name__} on valid sequences")
        if again != want_good:
            violation(leg, case, "cgr-batch-after-refusal", f"after a refused batch the same object returns other results for {len(good)} valid sequences (first row has {len(again[0]) if again else 0} points)")
    if not bad:
        if berr is not None:
            violation(leg, case, "cgr-batch-valid-rejected", f"vectorise_batch raised {berr} although every element is valid")
        if batch != singles:
            violation(leg, case, "cgr-batch-order", "vectorise_batch differs from the list of per-sequence results")


def chk_released(case):
    leg = "released-string"
    begin(leg, case)
    parts, k, w, m = case["parts"], case["k"], case["w"], case["m"]
    # a temporary string object that only the constructor call sees
    tmp = "".join(parts)
    kg = pk.KmerGenerator(tmp, k)
    mg = pk.MinimiserGenerator(tmp, w, m)
    head_k = [next(kg, None)]
    ref = "".join(parts)
    del tmp
    gc.collect()
    junk = [bytearray(b"\xAA" * 4096) for _ in range(256)]  # 1 MiB of fresh allocations
    junk2 = ["T" * len(ref) for _ in range(64)]
    got_k = [tuple(x) for x in head_k if x is not None] + [tuple(x) for x in kg]
    got_m = [tuple(x) for x in mg]
    del junk, junk2
    want_k = [tuple(x) for x in ORACLE.ask(op="kmers", seq=ref, k=k)["ok"]]
    want_m = [tuple(x) for x in ORACLE.ask(op="mins", seq=ref, w=w, m=m)["ok"]]
    note(leg, case, bool(want_k), ["released"])
    if got_k != want_k:
        violation(leg, case, "released-kmer-iterator", f"after the source string was released the k-mer iterator yields {len(got_k)} items, core {len(want_k)}")
    if got_m != want_m:
        violation(leg, case, "released-minimiser-iterator", f"after the source string was released the minimiser iterator yields {got_m[:4]}, core {want_m[:4]}")


def chk_long(case):
    """strings of a megabyte and more (built from a small generated unit): iterators, oligo vector and CGR against the core"""
    leg = "long-strings"
    begin(leg, case)
    unit, target, k, w, m = case["unit"], case["bytes"], case["k"], case["w"], case["m"]
    ulen = max(1, len(unit.encode("utf-8")))
    s = unit * (target // ulen + 1)
    note(leg, case, True, ["long", "long-non-ascii" if non_ascii(s) else "long-ascii"])
    try:
        oc = pk.OligoComputer(case["ok"])
        got = oc.vectorise_one(s, case["norm"])
        want = ORACLE.ask(op="oligo", seq=s, k=case["ok"], norm=case["norm"])["ok"]
        if not close(got, want):
            violation(leg, case, "long-oligo-vector-differs", "oligo vector of a long string differs from the core")
        b = oc.vectorise_batch([s, unit], case["norm"])
        if len(b) != 2 or not close(b[0], got, 0.0):
            violation(leg, case, "long-oligo-batch", "vectorise_batch([long, short]) differs from the per-sequence results")
        gk, hk = 0, 0
        for f, r in pk.KmerGenerator(s, k):
            hk = (hk * 1000003 + f * 31 + r) & 0xFFFFFFFFFFFFFFFF
            gk += 1
        wk = ORACLE.ask(op="kmers_digest", seq=s, k=k)["ok"]
        if [gk, str(hk)] != wk:
            violation(leg, case, "long-kmer-items", f"k-mer iterator yields {gk} items (digest {hk}) on a long string, core {wk}")
        # whole-sequence CGR of a long nucleotide-only prefix (block-wise fast paths start at a few thousand bases),
        # alone and as the long element of a batch
        nuc = "".join(c for c in unit if c in "ACGTUacgtu") or "A"
        cs = (nuc * (case.get("cgr_len", 20000) // len(nuc) + 1))[: case.get("cgr_len", 20000)]
        cg = pk.CgrComputer(case.get("s", 16))
        gp = [list(p) for p in cg.vectorise_one(cs)]
        wp = ORACLE.ask(op="cgr", seq=cs, s=case.get("s", 16))["ok"]
        if gp != wp:
            first = next((i for i, (a, b) in enumerate(zip(gp, wp)) if a != b), min(len(gp), len(wp)))
            violation(leg, case, "long-cgr-differs", f"CGR of {len(cs)} bases differs from the core at point {first}: {gp[first:first+1]} vs {wp[first:first+1]}")
        gb = cg.vectorise_batch([nuc, cs, nuc])
        if len(gb) != 3 or [list(p) for p in gb[1]] != gp:
            violation(leg, case, "long-cgr-batch", "vectorise_batch([short, long, short]) differs from the per-sequence result")
        gm = [tuple(x) for x in pk.MinimiserGenerator(s, w, m)]
        wm = [tuple(x) for x in ORACLE.ask(op="mins", seq=s, w=w, m=m)["ok"]]
        if gm != wm:
            violation(leg, case, "long-minimiser-iterator", f"minimiser iterator yields {len(gm)} runs on a long string, core {len(wm)}")
    except Violation:
        raise
    except BaseException as e:  # noqa: BLE001  (PanicException derives from BaseException)
        violation(leg, case, "long-string-exception", f"{type(e).__name__}: {str(e)[:300]}")


def chk_temps(case):
    """equal-length strings that live only for the call (a loop over decoded records), every class of the module"""
    leg = "equal-length-temporaries"
    begin(leg, case)
    n, k, w, m, s_size = len(case["seqs"]), case["k"], case["w"], case["m"], case["s"]
    note(leg, case, n >= 2, ["temporaries", "temporaries>=512" if len(case["seqs"][0]) >= 512 else "temporaries<512"])
    oc = pk.OligoComputer(case["ok"])
    cg = pk.CgrComputer(s_size)
    for i in range(n):
        # "".join builds a new str object each time; nothing keeps it alive after the call
        got_k = [tuple(x) for x in pk.KmerGenerator("".join(case["seqs"][i]), k)]
        got_m = [tuple(x) for x in pk.MinimiserGenerator("".join(case["seqs"][i]), w, m)]
        got_o = oc.vectorise_one("".join(case["seqs"][i]), case["norm"])
        s = "".join(case["seqs"][i])
        want_k = [tuple(x) for x in ORACLE.ask(op="kmers", seq=s, k=k)["ok"]]
        want_m = [tuple(x) for x in ORACLE.ask(op="mins", seq=s, w=w, m=m)["ok"]]
        want_o = ORACLE.ask(op="oligo", seq=s, k=case["ok"], norm=case["norm"])["ok"]
        if got_k != want_k:
            violation(leg, case, "temporaries-kmer-iterator", f"string {i} of {n} equal-length temporaries: k-mer iterator yields {len(got_k)} items, core {len(want_k)}")
        if got_m != want_m:
            violation(leg, case, "temporaries-minimiser-iterator", f"string {i} of {n} equal-length temporaries: minimiser iterator yields {got_m[:3]}, core {want_m[:3]}")
        if not close(got_o, want_o):
            violation(leg, case, "temporaries-oligo", f"string {i} of {n} equal-length temporaries: oligo vector differs from the core")
        wc = ORACLE.ask(op="cgr", seq=s, s=s_size)
        try:
            gc_ = [list(p) for p in cg.vectorise_one("".join(case["seqs"][i]))]
            if "ok" not in wc or gc_ != wc["ok"]:
                violation(leg, case, "temporaries-cgr", f"string {i} of {n} equal-length temporaries: CGR differs from the core")
        except ValueError:
            if "ok" in wc:
                violation(leg, case, "temporaries-cgr", f"string {i}: ValueError but the core accepts the string")


def chk_header_edit(case):
    """the list returned by get_header() belongs to the caller: editing it must not change later answers"""
    leg = "header-after-caller-edit"
    begin(leg, case)
    k = case["k"]
    want = ORACLE.ask(op="header", k=k)["ok"]
    note(leg, case, True, ["header-edit"])
    a = pk.OligoComputer(k)
    h = a.get_header()
    if h != want:
        violation(leg, case, "header-differs", f"k={k}: header differs from the core")
    for e in case["edits"]:
        if e == 0:
            h.insert(0, "seq_id")
        elif e == 1:
            h.append("label")
        elif e == 2:
            h.sort(reverse=True)
        elif e == 3 and h:
            del h[0]
        elif e == 4 and h:
            h[len(h) // 2] = "X"
        else:
            h.clear()
        h2 = a.get_header()
        h3 = pk.OligoComputer(k).get_header()
        if h2 != want or h3 != want:
            violation(leg, case, "header-after-caller-edit", f"k={k}: after the caller edited the list it got (edit {e}), get_header() returns {len(h2)} / {len(h3)} names, expected {len(want)}")
        h = h2


CHECKS = {"equal-length-temporaries": chk_temps, "header-after-caller-edit": chk_header_edit, "long-strings": chk_long, "kmer-iterator": chk_kmers, "to-acgt": chk_acgt, "minimiser-iterator": chk_mins, "oligo": chk_oligo, "cgr": chk_cgr, "released-string": chk_released}

# ------------------------------------------------------------------------------------------------
# Hypothesis drivers

S_ST = st.one_of(st.sampled_from([1, 2, 3, 16, 100, 1 << 20]), st.integers(1, 1 << 20))


def drivers():
    return {
        "kmer-iterator": (st.fixed_dictionaries({"seq": st.one_of(any_text, any_text, any_text, st.text(alphabet=NUC, min_size=300, max_size=1500)), "k": k_st}), 0.22),
        "to-acgt": (k_st.flatmap(lambda k: st.fixed_dictionaries({"k": st.just(k), "x": st.one_of(st.integers(0, 4 ** k - 1), st.sampled_from([0, 4 ** k - 1]))})), 0.05),
        "minimiser-iterator": (wm_st().flatmap(lambda wm: st.fixed_dictionaries({"seq": st.one_of(any_text, long_text(wm[0])), "w": st.just(wm[0]), "m": st.just(wm[1])})), 0.22),
        "oligo": (st.fixed_dictionaries({"seqs": batch_st(any_text), "k": st.integers(1, 6), "norm": st.booleans()}), 0.17),
        "cgr": (st.fixed_dictionaries({"seqs": batch_st(st.one_of(nuc_text, nuc_text, nuc_text, sprinkled, raw_sprinkled, confusable_sprinkled, mixed_sprinkled)), "s": S_ST}), 0.17),
        "equal-length-temporaries": (st.integers(3, 8).flatmap(lambda n: st.sampled_from([30, 64, 150, 250, 511, 512, 513, 600, 1000, 1024]).flatmap(lambda L: st.fixed_dictionaries({
            "seqs": st.lists(st.lists(st.sampled_from(list("ACGTACGTN")), min_size=L, max_size=L), min_size=n, max_size=n),
            "k": k_st, "w": st.integers(20, 40), "m": st.integers(1, 20), "ok": st.integers(1, 5), "norm": st.booleans(), "s": S_ST}))), 0.02),
        "header-after-caller-edit": (st.fixed_dictionaries({"k": st.integers(1, 7), "edits": st.lists(st.integers(0, 5), min_size=1, max_size=4)}), 0.01),
        "long-strings": (st.fixed_dictionaries({
            "unit": st.one_of(st.text(alphabet=NUC + "\u00e9\u20ac", min_size=1, max_size=40), st.text(alphabet="ACGT\u00e9", min_size=1, max_size=9), st.sampled_from(["\u00e9", "A\u00e9", "ACG\U0001F441T", "acgtN"])),
            "bytes": st.sampled_from([1 << 20, (1 << 20) + 7, 1_300_000, 2_100_000]),
            "k": k_st, "ok": st.integers(1, 6), "norm": st.booleans(),
            "w": st.integers(20, 60), "m": st.integers(1, 20),
            "cgr_len": st.sampled_from([8191, 8192, 8193, 20000, 65536, 70001, 150000]), "s": S_ST}), 0.003),
        "released-string": (wm_st().flatmap(lambda wm: st.fixed_dictionaries({"parts": st.lists(st.one_of(st.text(alphabet=NUC, min_size=1, max_size=60), sprinkled), min_size=1, max_size=12), "k": k_st, "w": st.just(min(wm[0], 40)).map(lambda w: max(w, wm[1])), "m": st.just(wm[1])})), 0.17),
    }


def run_suite(seed_value, shard, examples):
    for leg, (strategy, share) in drivers().items():
        n = max(1, int(examples * share))
        STATE["counting"] = True
        STATE["last_fail"] = None
        t0 = time.time()
        chk = CHECKS[leg]

        @seed((seed_value * 1000003 + shard * 7919 + zlib.crc32(leg.encode())) & 0xFFFFFFFF)
        @settings(max_examples=n, database=None, deadline=None, derandomize=False, suppress_health_check=list(HealthCheck), phases=[Phase.generate, Phase.shrink], print_blob=False)
        @given(strategy)
        def test(case):
            try:
                chk(case)
            except Violation:
                raise
            except (KeyboardInterrupt, SystemExit, MemoryError):
                raise
            except RuntimeError as e:
                if "oracle" in str(e):
                    raise
                violation(leg, case, "unexpected-exception", f"{type(e).__name__}: {str(e)[:300]}")
            except BaseException as e:  # noqa: BLE001  (pyo3's PanicException derives from BaseException)
                violation(leg, case, "unexpected-exception", f"{type(e).__name__}: {str(e)[:300]}")

        try:
            test()
        except Violation:
            f = STATE["last_fail"]
            STATE["failures"].append(f)
        except Exception as e:  # noqa: BLE001
            if STATE["last_fail"] is not None:
                STATE["failures"].append(STATE["last_fail"])
            else:
                STATE["inconclusive"].append(f"leg {leg}: {type(e).__name__}: {str(e)[:300]}")
        STATE["legs"].setdefault(leg, {"evaluations": 0, "nontrivial": 0, "wall_s": 0.0})["wall_s"] += time.time() - t0


def main():
    global ORACLE
    ap = argparse.ArgumentParser()
    ap.add_argument("--seed", type=int, default=0)
    ap.add_argument("--shard", type=int, default=0)
    ap.add_argument("--examples", type=int, default=1000)
    ap.add_argument("--out")
    ap.add_argument("--journal")
    ap.add_argument("--replay")
    a = ap.parse_args()
    ORACLE = Oracle()
    if a.replay:
        body = json.load(open(a.replay))
        try:
            CHECKS[body["leg"]](body["case"])
            print(json.dumps({"ok": True}))
        except Violation as v:
            print(json.dumps({"sig": v.sig, "msg": v.msg}))
        return
    STATE["journal"] = a.journal
    run_suite(a.seed, a.shard, a.examples)
    if a.journal and os.path.exists(a.journal):
        os.remove(a.journal)
    out = {
        "evaluations": STATE["evaluations"], "nontrivial_hashes": sorted(STATE["hashes"]), "classes": STATE["classes"], "legs": STATE["legs"],
        "samples": STATE["samples"], "failures": STATE["failures"], "inconclusive": STATE["inconclusive"],
    }
    with open(a.out, "w") as f:
        json.dump(out, f)


if __name__ == "__main__":
    main()
