#!/usr/bin/env python3
"""Runs the command line through the Python package's entry point (pykmertools.run_cli), the way the
pip/conda console script does: arguments after the script name are the kmertools arguments."""
import os, sys
sys.path.insert(0, os.environ.get("VERIF_PYDIR", "/verif/.build/py"))
import pykmertools
pykmertools.run_cli()
