#!/usr/bin/env python3
"""Child process of the C14 leg `python-attribute-assignments`: every public non-callable attribute of the four
classes is assigned generated values (most refuse: AttributeError / TypeError is fine); afterwards the objects are
used in the ordinary way. The module loaded here is built with debug assertions, so an index outside its buffer
aborts this process - which is what the parent looks for. Prints one JSON line: which assignments were accepted."""
import json, os, sys

sys.path.insert(0, os.environ.get("VERIF_PYDIR_DBG", "/verif/.build/py-dbg"))
import pykmertools as pk  # noqa: E402

case = json.loads(sys.argv[1])
seq, seq2, vals = case["seq"], case["seq2"], case["values"]
accepted = []


def fuzz(obj, label):
    for name in dir(obj):
        if name.startswith("_"):
            continue
        try:
            cur = getattr(obj, name)
        except Exception:  # noqa: BLE001
            continue
        if callable(cur):
            continue
        for v in vals:
            try:
                setattr(obj, name, v)
                accepted.append([label, name, v])
            except Exception:  # noqa: BLE001
                pass


def quiet(f):
    try:
        return f()
    except Exception:  # noqa: BLE001  (ValueError etc. are answers, not crashes)
        return None


oc = pk.OligoComputer(case["k"])
fuzz(oc, "OligoComputer")
quiet(lambda: oc.vectorise_one(seq, True))
quiet(lambda: oc.vectorise_one(seq2, False))
quiet(lambda: oc.vectorise_batch([seq, seq2, seq], True))
quiet(lambda: oc.get_header())
cg = pk.CgrComputer(case["s"])
fuzz(cg, "CgrComputer")
quiet(lambda: cg.vectorise_one("".join(c for c in seq if c in "ACGTacgt")))
quiet(lambda: cg.vectorise_batch(["ACGT", "".join(c for c in seq2 if c in "ACGTacgt")]))
kg = pk.KmerGenerator(seq, case["gk"])
fuzz(kg, "KmerGenerator")
quiet(lambda: list(kg))
quiet(lambda: kg.to_acgt(5))
mg = pk.MinimiserGenerator(seq2, case["w"], case["m"])
fuzz(mg, "MinimiserGenerator")
quiet(lambda: list(mg))
print(json.dumps({"accepted": accepted}))
