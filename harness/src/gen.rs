//! Shared generators. Everything random is drawn inside proptest strategies; no filtering.
#![allow(dead_code)]
use crate::model;
use crate::util::Bytes;
use proptest::collection::vec;
use proptest::prelude::*;
use proptest::sample::select;
use serde::{Deserialize, Serialize};

pub const CLEAN: &[u8] = b"ACGT";
pub const CASE_U: &[u8] = b"ACGTUacgtu";
/// foreign bytes that may occur on a FASTA/FASTQ sequence line (ASCII, printable, no white space)
pub const FOREIGN_FILE: &[u8] = b"NnRYKMSWBDHVXryx-*.";

fn foreign_any() -> BoxedStrategy<u8> {
    prop_oneof![
        4 => Just(b'N'),
        4 => select(b"NnRYKM-* \t0189\r\n".to_vec()),
        2 => 0x04u8..=0x1f,
        2 => 0x80u8..=0xff,
        2 => (0x04u8..=0xffu8).prop_map(|b| if model::is_base(b) { b'N' } else { b }),
    ]
    .boxed()
}

fn foreign_file() -> BoxedStrategy<u8> {
    prop_oneof![3 => Just(b'N'), 2 => select(FOREIGN_FILE.to_vec())].boxed()
}

pub fn foreign(file_safe: bool) -> BoxedStrategy<u8> {
    if file_safe {
        foreign_file()
    } else {
        foreign_any()
    }
}

/// lengths 0..=max biased to 0, 1, scale-1..scale+1 and to the tail
pub fn len_strategy(scale: usize, max: usize) -> BoxedStrategy<usize> {
    let lo = scale.saturating_sub(2).min(max);
    let hi = (scale + 2).min(max);
    prop_oneof![
        1 => Just(0usize),
        1 => Just(1usize.min(max)),
        4 => lo..=hi,
        2 => Just((2 * scale).min(max)),
        8 => 0..=max,
        3 => (max - max / 4)..=max,
        4 => 0..=(4 * scale + 8).min(max),
    ]
    .boxed()
}

fn clean_seq(len: usize) -> BoxedStrategy<Vec<u8>> {
    vec(select(CLEAN.to_vec()), len).boxed()
}

fn low_complexity(scale: usize, len: usize) -> BoxedStrategy<Vec<u8>> {
    let alpha = select(CLEAN.to_vec());
    prop_oneof![
        // homopolymer
        alpha.clone().prop_map(move |b| vec![b; len]),
        // short period repeats
        (1usize..=5, vec(alpha.clone(), 5)).prop_map(move |(p, unit)| (0..len).map(|i| unit[i % p]).collect()),
        // x . revcomp(x) palindrome repeated
        vec(alpha.clone(), 1..=(scale.max(1))).prop_map(move |x| {
            let mut unit = x.clone();
            unit.extend(model::revcomp_text(&x));
            (0..len).map(|i| unit[i % unit.len()]).collect()
        }),
        // two alternating blocks of scale bases
        (vec(alpha.clone(), scale.max(1)), vec(alpha.clone(), scale.max(1)), vec(any::<bool>(), 1..=12)).prop_map(
            move |(a, b, pat)| {
                let mut out = Vec::with_capacity(len);
                let mut i = 0;
                while out.len() < len {
                    let blk = if pat[i % pat.len()] { &a } else { &b };
                    out.extend_from_slice(blk);
                    i += 1;
                }
                out.truncate(len);
                out
            }
        ),
        // mostly one base with rare others (long ties)
        (alpha.clone(), vec((any::<u16>(), alpha), 0..=4)).prop_map(move |(b, muts)| {
            let mut out = vec![b; len];
            for (p, c) in muts {
                if len > 0 {
                    out[crate::util::idx16(p, len)] = c;
                }
            }
            out
        }),
    ]
    .boxed()
}

/// gap lengths: mostly 1..=3, but also the lengths next to 8, 16, 24, 32 and 64 (word- and block-wise
/// skipping of runs of ambiguous bytes) and anything up to 70
fn gap_len() -> BoxedStrategy<usize> {
    prop_oneof![
        6 => 1usize..=3,
        3 => select(vec![7usize, 8, 9, 10, 15, 16, 17, 18, 23, 24, 25, 26, 31, 32, 33, 34, 35, 40, 41, 48, 49, 63, 64, 65, 66, 67]),
        1 => 1usize..=70,
    ]
    .boxed()
}

fn segments(scale: usize, max: usize, file_safe: bool) -> BoxedStrategy<Vec<u8>> {
    let seg_len = prop_oneof![
        6 => scale.saturating_sub(2)..=(scale + 2),
        2 => Just(scale),
        1 => Just(1usize),
        1 => Just(2 * scale),
        2 => 0..=(3 * scale + 3),
    ];
    (
        vec((seg_len, gap_len(), foreign(file_safe), any::<u64>()), 1..=8),
        any::<bool>(),
        any::<bool>(),
        foreign(file_safe),
        // all gaps filled with the same byte (runs of one ambiguous byte, as in N-masked assemblies)
        prop::bool::weighted(0.6),
        // the text is cut to the limit from the left, so that its end (last segment, trailing gap) survives
        any::<bool>(),
    )
        .prop_map(move |(segs, lead, trail, fb, same, keep_end)| {
            let mut out = Vec::new();
            if lead {
                out.push(fb);
            }
            let n = segs.len();
            for (i, (sl, fl, f, seed)) in segs.into_iter().enumerate() {
                let mut s = seed;
                for _ in 0..sl {
                    s = crate::util::splitmix(s);
                    out.push(CLEAN[(s >> 33) as usize % 4]);
                }
                if i + 1 < n || trail {
                    // a trailing gap is short: the interesting tails are "a few more of the same byte"
                    let fl = if i + 1 == n { 1 + fl % 5 } else { fl };
                    for _ in 0..fl {
                        out.push(if same { fb } else { f });
                    }
                }
            }
            if out.len() > max {
                if keep_end {
                    out.drain(..out.len() - max);
                } else {
                    out.truncate(max);
                }
            }
            out
        })
        .boxed()
}

fn sprinkled(len: usize, file_safe: bool) -> BoxedStrategy<Vec<u8>> {
    (
        vec(select(CASE_U.to_vec()), len),
        select(vec![50u32, 10, 3]),
        vec((any::<u32>(), foreign(file_safe)), len),
    )
        .prop_map(|(mut s, rate, f)| {
            for (i, (r, b)) in f.into_iter().enumerate() {
                if r % rate == 0 {
                    s[i] = b;
                }
            }
            s
        })
        .boxed()
}

/// sequence generator. `scale` is k or w; `file_safe` restricts to bytes a FASTA line may hold.
pub fn seq(scale: usize, max: usize, file_safe: bool) -> BoxedStrategy<Vec<u8>> {
    let scale = scale.max(1);
    let l = len_strategy(scale, max);
    let mut arms: Vec<(u32, BoxedStrategy<Vec<u8>>)> = vec![
        (4, l.clone().prop_flat_map(clean_seq).boxed()),
        (2, l.clone().prop_flat_map(|n| vec(select(CASE_U.to_vec()), n)).boxed()),
        (3, l.clone().prop_flat_map(move |n| sprinkled(n, file_safe)).boxed()),
        (4, segments(scale, max, file_safe)),
        (3, l.clone().prop_flat_map(move |n| low_complexity(scale, n)).boxed()),
    ];
    if !file_safe {
        arms.push((2, l.prop_flat_map(|n| vec(0x04u8..=0xff, n)).boxed()));
    }
    proptest::strategy::Union::new_weighted(arms).boxed()
}

/// tokens for sequences holding valid two-byte UTF-8 characters (all their bytes are >= 0x80, i.e.
/// ambiguous): Latin-1 letters whose bytes alias nucleotides when the high bit is dropped, mixed with
/// real bases. Only usable on unwrapped lines (a wrap inside a character would make the file invalid UTF-8).
pub const UTF8_TOKENS: &[&str] = &["A", "C", "G", "T", "a", "t", "N", "\u{c0}", "\u{c1}", "\u{c2}", "\u{c3}", "\u{c7}", "\u{d4}", "\u{e9}", "\u{ff}", "\u{141}"];

pub fn utf8_seq(max_tokens: usize) -> BoxedStrategy<Vec<u8>> {
    prop_oneof![
        2 => vec(select(UTF8_TOKENS.to_vec()), 0..=max_tokens).prop_map(|t| t.concat().into_bytes()),
        1 => vec(select(UTF8_TOKENS[7..].to_vec()), 1..=max_tokens).prop_map(|t| t.concat().into_bytes()),
    ]
    .boxed()
}

/// nucleotide-only sequence (either case, U allowed)
pub fn nuc_seq(scale: usize, max: usize) -> BoxedStrategy<Vec<u8>> {
    let l = len_strategy(scale.max(1), max);
    prop_oneof![
        3 => l.clone().prop_flat_map(clean_seq),
        3 => l.clone().prop_flat_map(|n| vec(select(CASE_U.to_vec()), n)),
        2 => l.prop_flat_map(move |n| low_complexity(scale.max(1), n)),
    ]
    .boxed()
}

pub fn k_strategy() -> BoxedStrategy<usize> {
    prop_oneof![
        6 => 1usize..=31,
        1 => Just(1usize), 1 => Just(2usize), 1 => Just(15usize), 1 => Just(16usize), 1 => Just(17usize),
        1 => Just(30usize), 2 => Just(31usize),
    ]
    .boxed()
}

/// (w, m) with 1 <= m <= w, m <= max_m, w <= min(m + 60, max_w)
pub fn wm_strategy(max_m: usize, max_w: usize) -> BoxedStrategy<(usize, usize)> {
    let m = prop_oneof![
        6 => 1usize..=max_m,
        1 => Just(1usize), 1 => Just(2usize.min(max_m)), 1 => Just(7usize.min(max_m)), 1 => Just(16usize.min(max_m)),
        1 => Just(28usize.min(max_m)), 1 => Just(max_m),
    ];
    m.prop_flat_map(move |m| {
        let hi = (m + 60).min(max_w).max(m);
        let d = prop_oneof![
            3 => Just(0usize), 3 => Just(1usize), 2 => Just(2usize), 4 => 0usize..=8, 3 => 0usize..=60,
        ];
        d.prop_map(move |d| ((m + d).min(hi), m))
    })
    .boxed()
}

pub fn threads_strategy() -> BoxedStrategy<usize> {
    prop_oneof![2 => Just(1usize), 2 => Just(2usize), 2 => Just(3usize), 1 => Just(16usize), 4 => 1usize..=16].boxed()
}

pub fn square_strategy() -> BoxedStrategy<u64> {
    prop_oneof![
        1 => Just(1u64), 1 => Just(2u64), 1 => Just(3u64), 1 => Just(16u64), 1 => Just(100u64), 1 => Just(1u64 << 20),
        4 => 1u64..=(1u64 << 20),
    ]
    .boxed()
}

// ---------------------------------------------------------------------------------------------
// giant sequences: kept as a compact description (a repeated unit plus a few point edits) so that a
// replay file stays small; expanded when the case is executed. Lengths sit next to the thresholds
// where fast paths, block-wise processing, narrow counters and fixed-width formatting change behaviour.

#[derive(Clone, Debug, Serialize, Deserialize, PartialEq, Eq)]
pub struct Giant {
    pub unit: Bytes,
    pub len: usize,
    /// (position as a fraction of the length, mapped monotonically; byte written there)
    pub edits: Vec<(u32, u8)>,
    /// when set, the text is pseudo-random over ACGT from this seed instead of the repeated unit
    #[serde(default)]
    pub rand_seed: Option<u64>,
    /// stretches of N: (start as a fraction of the length, number of bytes) - scaffold gaps of a kilobyte and more
    #[serde(default)]
    pub gaps: Vec<(u32, u32)>,
}

impl Giant {
    pub fn expand(&self) -> Vec<u8> {
        let u = &self.unit.0;
        let mut out: Vec<u8> = if let Some(seed) = self.rand_seed {
            let mut s = seed;
            let mut v = Vec::with_capacity(self.len);
            while v.len() < self.len {
                s = crate::util::splitmix(s);
                let mut x = s;
                for _ in 0..28 {
                    if v.len() < self.len {
                        v.push(CLEAN[(x & 3) as usize]);
                        x >>= 2;
                    }
                }
            }
            v
        } else if u.is_empty() {
            vec![b'A'; self.len]
        } else {
            u.iter().cycle().take(self.len).copied().collect()
        };
        for &(f, n) in &self.gaps {
            if self.len > 0 {
                let p = (((f as u128 * self.len as u128) >> 32) as usize).min(self.len - 1);
                for x in out[p..(p + n as usize).min(self.len)].iter_mut() {
                    *x = b'N';
                }
            }
        }
        for &(f, b) in &self.edits {
            if self.len > 0 {
                let p = ((f as u128 * self.len as u128) >> 32) as usize;
                out[p.min(self.len - 1)] = b;
            }
        }
        out
    }
    /// the description as the Python worker expects it
    pub fn to_json(&self) -> serde_json::Value {
        assert!(self.rand_seed.is_none(), "pseudo-random giants are sent expanded");
        serde_json::json!({"unit": crate::pyworker::hex(&self.unit.0), "len": self.len, "edits": self.edits, "gaps": self.gaps})
    }
    pub fn label(&self) -> String {
        let l = self.len;
        let size = if l > (1 << 24) { ">2^24" } else if l > 4_000_000 { ">4M" } else if l > 2_000_000 { ">2M" } else if l > (1 << 20) { ">2^20" } else if l > (1 << 16) { ">2^16" } else { "<=2^16" };
        format!("giant-{}-{}", if self.rand_seed.is_some() { "pseudo-random" } else if self.unit.0.len() <= 1 { "homopolymer" } else if self.unit.0.len() <= 8 { "short-period" } else { "long-unit" }, size)
    }
}

/// lengths next to `thresholds` (a few below, at, a few above) or anywhere between lo and hi
fn giant_len(lo: usize, hi: usize, thresholds: &[usize]) -> BoxedStrategy<usize> {
    let th: Vec<usize> = thresholds.iter().copied().filter(|&t| t >= lo && t <= hi).collect();
    if th.is_empty() {
        return (lo..=hi).boxed();
    }
    prop_oneof![
        3 => (select(th), -40i64..=40).prop_map(move |(t, d)| ((t as i64 + d).max(lo as i64) as usize).min(hi)),
        2 => lo..=hi,
        1 => (hi - (hi - lo) / 8)..=hi,
    ]
    .boxed()
}

/// a homopolymer of more than two million bases with one other base at its first or last position: one
/// column holds all windows but one, a frequency that rounds to 1.000000 at 6 decimals without being 1
pub fn giant_near_one(hi: usize) -> BoxedStrategy<Giant> {
    (select(CLEAN.to_vec()), 2_000_100usize..=hi.max(2_000_200), select(vec![0u32, u32::MAX]), select(CLEAN.to_vec()), prop::bool::weighted(0.3), any::<u32>(), select(b"ACGTN".to_vec()))
        .prop_map(|(b, len, pos, e, second, pos2, e2)| {
            let mut edits = vec![(pos, e)];
            if second {
                edits.push((pos2, e2));
            }
            Giant { unit: Bytes(vec![b]), len, edits, rand_seed: None, gaps: Vec::new() }
        })
        .boxed()
}

pub const GIANT_THRESHOLDS: &[usize] = &[1 << 16, 1 << 17, 1 << 18, 1 << 19, 1 << 20, (1 << 20) + (1 << 18), 1 << 21, 2_000_000, 2_500_000, 3_000_000, 1 << 22, 4_000_000, 1 << 23, 1 << 24];

/// a giant sequence of lo..=hi bytes. `edit_bytes` are the bytes point edits may write.
pub fn giant(lo: usize, hi: usize, edit_bytes: Vec<u8>) -> BoxedStrategy<Giant> {
    let unit = prop_oneof![
        4 => select(CLEAN.to_vec()).prop_map(|b| vec![b]),
        2 => vec(select(CLEAN.to_vec()), 2..=8),
        1 => vec(select(b"AT".to_vec()), 2..=6),
        3 => vec(select(CLEAN.to_vec()), 40..=400),
        1 => vec(select(CASE_U.to_vec()), 10..=100),
    ];
    // edits: none, one at the very end / start (spoils exactly one window), a handful anywhere
    let pos = prop_oneof![2 => Just(u32::MAX), 1 => Just(0u32), 1 => Just(u32::MAX - 2), 4 => any::<u32>()];
    let edits = prop_oneof![
        1 => Just(Vec::new()).boxed(),
        4 => vec((pos.clone(), select(edit_bytes.clone())), 1).boxed(),
        3 => vec((pos, select(edit_bytes)), 2..=6).boxed(),
    ];
    (unit, giant_len(lo, hi, GIANT_THRESHOLDS), edits, giant_gaps()).prop_map(|(unit, len, edits, gaps)| Giant { unit: Bytes(unit), len, edits, rand_seed: None, gaps }).boxed()
}

/// none (two thirds), or one to three stretches of N of a kilobyte and more (batch-wise iteration that takes an
/// empty batch for the end of the input, statistics that treat a gap as a record boundary, ...)
pub fn giant_gaps() -> BoxedStrategy<Vec<(u32, u32)>> {
    prop_oneof![
        2 => Just(Vec::new()),
        1 => vec((any::<u32>(), prop_oneof![2 => select(vec![1023u32, 1024, 1025, 2047, 2048, 2049, 3000, 4096, 8192]), 1 => 1000u32..=70_000]), 1..=3),
    ]
    .boxed()
}

/// a pseudo-random giant sequence (no period) with a few point edits
pub fn giant_random(lo: usize, hi: usize, edit_bytes: Vec<u8>) -> BoxedStrategy<Giant> {
    (any::<u64>(), giant_len(lo, hi, GIANT_THRESHOLDS), vec((any::<u32>(), select(edit_bytes)), 0..=4))
        .prop_map(|(seed, len, edits)| Giant { unit: Bytes(Vec::new()), len, edits, rand_seed: Some(seed), gaps: Vec::new() })
        .boxed()
}

// ---------------------------------------------------------------------------------------------
// records and containers

#[derive(Clone, Debug, Serialize, Deserialize, PartialEq, Eq)]
pub struct Rec {
    pub id: String,
    pub desc: Option<String>,
    pub seq: Bytes,
}

#[derive(Clone, Debug, Serialize, Deserialize, PartialEq, Eq)]
pub enum Format {
    /// wrap = None: single line
    Fasta { wrap: Option<usize> },
    /// wrap = Some(width): sequence and quality wrapped over several lines (multi-line FASTQ, which the
    /// reader accepts); quality lines then never start with '@' or '+', so that the file stays unambiguous
    Fastq {
        qual_seed: u64,
        #[serde(default)]
        wrap: Option<usize>,
    },
}

#[derive(Clone, Debug, Serialize, Deserialize, PartialEq, Eq)]
pub struct GzMember {
    /// split point as a fraction of the remaining bytes (monotone map), ignored for the last member
    pub cut: u16,
    /// stored (level 0) or deflated
    pub stored: bool,
    /// when set, the member holds exactly this many bytes of the text (instead of the fraction `cut`)
    #[serde(default)]
    pub exact: Option<usize>,
}

#[derive(Clone, Debug, Serialize, Deserialize, PartialEq, Eq)]
pub struct Container {
    pub format: Format,
    pub crlf: bool,
    pub final_newline: bool,
    pub gz: Option<Vec<GzMember>>,
    /// index into the suffix table of the format
    pub suffix: u8,
}

pub const FASTA_SUFFIXES: &[&str] = &[".fa", ".fasta", ".fna"];
pub const FASTQ_SUFFIXES: &[&str] = &[".fq", ".fastq"];

impl Container {
    pub fn plain_fasta() -> Self {
        Container {
            format: Format::Fasta { wrap: None },
            crlf: false,
            final_newline: true,
            gz: None,
            suffix: 0,
        }
    }
    pub fn is_fastq(&self) -> bool {
        matches!(self.format, Format::Fastq { .. })
    }
    pub fn suffix(&self) -> String {
        let t = match self.format {
            Format::Fasta { .. } => FASTA_SUFFIXES,
            Format::Fastq { .. } => FASTQ_SUFFIXES,
        };
        let mut s = t[self.suffix as usize % t.len()].to_string();
        if self.gz.is_some() {
            s.push_str(".gz");
        }
        s
    }
    pub fn label(&self) -> String {
        let f = match self.format {
            Format::Fasta { wrap: None } => "fasta",
            Format::Fasta { wrap: Some(_) } => "fasta-wrapped",
            Format::Fastq { wrap: Some(_), .. } => "fastq-multiline",
            Format::Fastq { .. } => "fastq",
        };
        let g = match &self.gz {
            None => "",
            Some(m) if m.len() > 1 => "+gz-multi",
            Some(_) => "+gz",
        };
        format!("{}{}", f, g)
    }
}

pub fn id_strategy() -> BoxedStrategy<String> {
    "[A-Za-z0-9_.:#|-]{1,12}".boxed()
}

fn desc_strategy() -> BoxedStrategy<Option<String>> {
    prop_oneof![3 => Just(None), 1 => "[A-Za-z0-9_=;,.:/ >@+-]{1,20}".prop_map(|s| Some(s.trim().to_string())).prop_map(|o| match o { Some(s) if s.is_empty() => None, o => o })].boxed()
}

/// make ids unique by suffixing the ordinal
fn uniq_ids(mut recs: Vec<Rec>) -> Vec<Rec> {
    let mut seen = std::collections::HashSet::new();
    for (i, r) in recs.iter_mut().enumerate() {
        if !seen.insert(r.id.clone()) {
            r.id = format!("{}_{}", r.id, i);
            while !seen.insert(r.id.clone()) {
                r.id.push('x');
            }
        }
    }
    recs
}

#[derive(Clone, Copy, Debug)]
pub struct RecParams {
    pub max_records: usize,
    pub scale: usize,
    pub max_len: usize,
    /// probability weight (out of 8) of the degenerate-shape mode
    pub degenerate_w: u32,
    /// extra boundary lengths for the degenerate mode (k, m, w ...)
    pub bounds: [usize; 3],
    pub nuc_only: bool,
}

fn degenerate_seq(p: RecParams) -> BoxedStrategy<Vec<u8>> {
    let mut lens = vec![0usize, 0, 1, 2];
    for b in p.bounds {
        if b > 0 {
            lens.push(b - 1);
            lens.push(b);
            lens.push(b + 1);
        }
    }
    let fb = if p.nuc_only { select(b"ACGT".to_vec()).boxed() } else { foreign_file() };
    (select(lens), 0u8..6, vec(select(CLEAN.to_vec()), 0..=70), fb)
        .prop_map(|(len, mode, fill, fb)| {
            let mut s: Vec<u8> = (0..len).map(|i| if fill.is_empty() { b'A' } else { fill[i % fill.len()] }).collect();
            match mode {
                0 => {
                    for b in s.iter_mut() {
                        *b = fb;
                    }
                }
                1 => {
                    if let Some(b) = s.first_mut() {
                        *b = fb;
                    }
                }
                2 => {
                    if let Some(b) = s.last_mut() {
                        *b = fb;
                    }
                }
                _ => {}
            }
            s
        })
        .boxed()
}

fn rec_seq(p: RecParams) -> BoxedStrategy<Vec<u8>> {
    let normal = if p.nuc_only { nuc_seq(p.scale, p.max_len) } else { seq(p.scale, p.max_len, true) };
    normal
}

pub fn records(p: RecParams) -> BoxedStrategy<Vec<Rec>> {
    let n = prop_oneof![
        1 => Just(0usize), 1 => Just(1usize), 1 => Just(2usize), 1 => Just(3usize.min(p.max_records)),
        6 => 0..=p.max_records,
        2 => (p.max_records - p.max_records / 4)..=p.max_records,
    ];
    let normal = n.clone().prop_flat_map(move |n| vec((id_strategy(), desc_strategy(), rec_seq(p)), n));
    let mixed = n.clone().prop_flat_map(move |n| {
        vec(
            (id_strategy(), desc_strategy(), prop_oneof![2 => rec_seq(p), 1 => degenerate_seq(p)]),
            n,
        )
    });
    let degen = n.clone().prop_flat_map(move |n| vec((id_strategy(), desc_strategy(), degenerate_seq(p)), n));
    // reads of one length (as a sequencer delivers them), some of them with a few ambiguous bases: equal byte
    // length, different numbers of valid windows
    let reads = (n, (p.scale.max(4))..=(p.max_len.max(p.scale.max(4) + 1)).min(200))
        .prop_flat_map(move |(n, len)| {
            vec((id_strategy(), desc_strategy(), vec(select(CLEAN.to_vec()), len), prop_oneof![2 => Just(Vec::new()), 1 => vec(any::<u16>(), 1..=3)]), n).prop_map(move |v| {
                v.into_iter()
                    .map(|(id, d, mut s, ns)| {
                        if !p.nuc_only {
                            for x in ns {
                                let i = crate::util::idx16(x, s.len());
                                s[i] = b'N';
                            }
                        }
                        (id, d, s)
                    })
                    .collect::<Vec<_>>()
            })
        });
    let dw = p.degenerate_w;
    let mut arms = vec![((8 - dw.min(7)), normal.boxed()), (2, reads.boxed())];
    if dw > 0 {
        arms.push((dw / 2 + 1, mixed.boxed()));
        arms.push((dw, degen.boxed()));
    }
    proptest::strategy::Union::new_weighted(arms)
    .prop_map(|v| {
        uniq_ids(
            v.into_iter()
                .map(|(id, desc, seq)| Rec { id, desc, seq: Bytes(seq) })
                .collect(),
        )
    })
    .boxed()
}

/// exactly `n` records
pub fn records_exact(p: RecParams, n: usize) -> BoxedStrategy<Vec<Rec>> {
    vec((id_strategy(), desc_strategy(), prop_oneof![4 => rec_seq(p), 1 => degenerate_seq(p)]), n)
        .prop_map(|v| {
            uniq_ids(
                v.into_iter()
                    .map(|(id, desc, seq)| Rec { id, desc, seq: Bytes(seq) })
                    .collect(),
            )
        })
        .boxed()
}

/// container generator; FASTQ is only chosen when `allow_fastq` (all records have >= 1 base)
pub fn container(allow_fastq: bool) -> BoxedStrategy<Container> {
    let wrap = prop_oneof![2 => Just(None), 1 => (1usize..=120).prop_map(Some), 1 => select(vec![1usize, 2, 60, 70, 80]).prop_map(Some)];
    let fasta = wrap.prop_map(|w| Format::Fasta { wrap: w });
    let fmt: BoxedStrategy<Format> = if allow_fastq {
        prop_oneof![3 => fasta, 2 => (any::<u64>(), prop_oneof![3 => Just(None), 1 => (1usize..=120).prop_map(Some)]).prop_map(|(q, wrap)| Format::Fastq { qual_seed: q, wrap })].boxed()
    } else {
        fasta.boxed()
    };
    // cut = 0 gives an empty member (the bgzip end-of-file block; `cat a.fa.gz b.fa.gz` of bgzip
    // files puts one in the middle), cut = 65535 a member taking all the remaining bytes
    let member = || (prop_oneof![8 => any::<u16>(), 2 => Just(0u16), 1 => Just(65535u16)], any::<bool>()).prop_map(|(cut, stored)| GzMember { cut, stored, exact: None });
    let gz = prop_oneof![
        3 => Just(None),
        1 => vec(member(), 1..=1).prop_map(Some),
        2 => vec(member(), 2..=5).prop_map(Some),
    ];
    (fmt, prop::bool::weighted(0.25), prop::bool::weighted(0.75), gz, 0u8..6)
        .prop_map(|(format, crlf, final_newline, gz, suffix)| Container {
            format,
            crlf,
            final_newline,
            gz,
            suffix,
        })
        .boxed()
}

/// records cut from one common "genome" (overlapping reads, either strand, occasional N):
/// k-mers and minimisers are shared between records
pub fn records_related(p: RecParams) -> BoxedStrategy<Vec<Rec>> {
    let n = prop_oneof![1 => 0..=3usize.min(p.max_records), 6 => 0..=p.max_records];
    (nuc_seq(p.scale, (2 * p.max_len).max(8)), n)
        .prop_flat_map(move |(genome, n)| {
            (Just(genome), vec((id_strategy(), any::<u16>(), any::<u16>(), any::<bool>(), prop::bool::weighted(0.15), any::<u16>()), n))
        })
        .prop_map(move |(genome, cuts)| {
            let g = genome.len();
            uniq_ids(
                cuts.into_iter()
                    .map(|(id, a, l, rc, mutate, mp)| {
                        let start = crate::util::idx16(a, g + 1);
                        let len = crate::util::idx16(l, (g - start).min(p.max_len) + 1);
                        let mut s = genome[start..start + len].to_vec();
                        if rc {
                            s = model::revcomp_text(&s);
                        }
                        if mutate && !s.is_empty() && !p.nuc_only {
                            let i = crate::util::idx16(mp, s.len());
                            s[i] = b'N';
                        }
                        Rec { id, desc: None, seq: Bytes(s) }
                    })
                    .collect(),
            )
        })
        .boxed()
}

/// independent or related records, plus a container that can hold them
pub fn records_mixed_in_container(p: RecParams) -> BoxedStrategy<(Vec<Rec>, Container)> {
    prop_oneof![3 => records(p), 2 => records_related(p)]
        .prop_flat_map(|recs| {
            let allow_fastq = !recs.is_empty() && recs.iter().all(|r| !r.seq.0.is_empty());
            (Just(recs), container(allow_fastq))
        })
        .boxed()
}

/// records plus a container that can hold them
pub fn records_in_container(p: RecParams) -> BoxedStrategy<(Vec<Rec>, Container)> {
    records(p)
        .prop_flat_map(|recs| {
            let allow_fastq = !recs.is_empty() && recs.iter().all(|r| !r.seq.0.is_empty());
            (Just(recs), container(allow_fastq))
        })
        .boxed()
}

// ---------------------------------------------------------------------------------------------
// contention on NEW keys: a few kilobytes of unrelated reads first (warm-up thresholds), then units of
// pseudo-random text each written as several adjacent copies, so that workers that take neighbouring
// records meet the same not-yet-counted k-mers at the same time, all through the run

#[derive(Clone, Debug, Serialize, Deserialize, PartialEq, Eq)]
pub struct DupSpec {
    pub seed: u64,
    /// unrelated reads in front
    pub prefix: usize,
    pub units: usize,
    pub copies: usize,
    pub unit_len: usize,
}

impl DupSpec {
    pub fn expand(&self) -> Vec<Rec> {
        let text = |seed: u64, len: usize| -> Vec<u8> {
            let mut s = seed;
            (0..len)
                .map(|_| {
                    s = crate::util::splitmix(s);
                    CLEAN[(s >> 40) as usize % 4]
                })
                .collect()
        };
        let mut out = Vec::new();
        for i in 0..self.prefix {
            out.push(Rec { id: format!("p{}", i), desc: None, seq: Bytes(text(self.seed ^ (0x1000 + i as u64), 150)) });
        }
        for u in 0..self.units {
            let t = text(self.seed ^ (0x900000 + u as u64), self.unit_len);
            for c in 0..self.copies {
                out.push(Rec { id: format!("u{}_{}", u, c), desc: None, seq: Bytes(t.clone()) });
            }
        }
        out
    }
}

pub fn dup_strategy() -> BoxedStrategy<DupSpec> {
    (any::<u64>(), prop_oneof![1 => Just(0usize), 3 => 20usize..=60], 4usize..=40, 2usize..=8, 60usize..=500)
        .prop_map(|(seed, prefix, units, copies, unit_len)| DupSpec { seed, prefix, units, copies, unit_len })
        .boxed()
}

// ---------------------------------------------------------------------------------------------
// alignment of record starts: readers and pre-passes that scan the file in blocks (8 KiB buffers, 64 KiB,
// 1 MiB) are only wrong when a record boundary or a header line meets a block boundary exactly

#[derive(Clone, Copy, Debug, Serialize, Deserialize, PartialEq, Eq)]
pub struct Align {
    /// byte offset (of the uncompressed text) that a record start is moved to ...
    pub target: usize,
    /// ... minus this many bytes (negative: the block boundary falls inside the header line)
    pub delta: i32,
    /// which record (monotone map over the candidates)
    pub pick: u16,
    /// the offset is measured back from the end of the text: the record starts exactly `target - delta` bytes
    /// before the end (a reader's last, partly filled block then begins with its header line)
    #[serde(default)]
    pub from_end: bool,
}

pub const ALIGN_TARGETS: &[usize] = &[4096, 8192, 16384, 32768, 65536, 131072, 1 << 20, 2 << 20];

pub fn align_strategy(max_target: usize) -> BoxedStrategy<Align> {
    let t: Vec<usize> = ALIGN_TARGETS.iter().copied().filter(|&t| t <= max_target).collect();
    (select(t), prop_oneof![4 => Just(0i32), 2 => -1i32..=1, 2 => -12i32..=-1, 1 => -40i32..=40], any::<u16>())
        .prop_flat_map(|(target, delta, pick)| prop::bool::weighted(0.25).prop_map(move |from_end| Align { target, delta, pick, from_end }))
        .boxed()
}

/// Moves the start of one record of a single-line LF FASTA serialisation to `target - delta` by appending
/// bases to the record before it. Returns the index of the aligned record.
pub fn align_records(recs: &mut [Rec], a: &Align) -> Option<usize> {
    align_records_nl(recs, a, false)
}

/// the same for CRLF line ends when `crlf` is set (a delta of -1 then puts the boundary between CR and LF)
pub fn align_records_nl(recs: &mut [Rec], a: &Align, crlf: bool) -> Option<usize> {
    let want = (a.target as i64 - a.delta as i64).max(0) as usize;
    let nl = if crlf { 2 } else { 1 };
    let size = |r: &Rec| 1 + crate::io::header_line(r).len() + nl + if r.seq.0.is_empty() { 0 } else { r.seq.0.len() + nl };
    let mut off = vec![0usize; recs.len() + 1];
    for (i, r) in recs.iter().enumerate() {
        off[i + 1] = off[i] + size(r);
    }
    if a.from_end {
        // candidates: records i >= 1 whose distance to the end is at most the wanted one; the last record grows
        let total = off[recs.len()];
        let cands: Vec<usize> = (1..recs.len()).filter(|&i| total - off[i] <= want).collect();
        if cands.is_empty() {
            return None;
        }
        let i = cands[crate::util::idx16(a.pick, cands.len())];
        let mut pad = want - (total - off[i]);
        let last = recs.last_mut().unwrap();
        if pad > 0 && last.seq.0.is_empty() {
            if pad <= nl {
                return None;
            }
            pad -= nl;
        }
        let clean: Vec<u8> = last.seq.0.iter().copied().filter(|&b| model::is_base(b)).collect();
        let unit = if clean.is_empty() { b"ACGTTGCA".to_vec() } else { clean };
        for j in 0..pad {
            last.seq.0.push(unit[j % unit.len()]);
        }
        return Some(i);
    }
    // candidates: records i >= 1 that start at or before the wanted offset
    let cands: Vec<usize> = (1..recs.len()).filter(|&i| off[i] <= want).collect();
    if cands.is_empty() {
        return None;
    }
    let i = cands[crate::util::idx16(a.pick, cands.len())];
    let mut pad = want - off[i];
    let prev = &mut recs[i - 1];
    if pad > 0 && prev.seq.0.is_empty() {
        // the first base also brings the line terminator
        if pad <= nl {
            return None;
        }
        pad -= nl;
    }
    let unit: Vec<u8> = if prev.seq.0.is_empty() { b"ACGTTGCA".to_vec() } else { prev.seq.0.clone() };
    let clean: Vec<u8> = unit.iter().copied().filter(|&b| model::is_base(b)).collect();
    let unit = if clean.is_empty() { b"ACGTTGCA".to_vec() } else { clean };
    for j in 0..pad {
        prev.seq.0.push(unit[j % unit.len()]);
    }
    Some(i)
}

// ---------------------------------------------------------------------------------------------
// schedules

#[derive(Clone, Debug, Serialize, Deserialize, PartialEq, Eq)]
pub enum Sched {
    Free,
    /// per-record spin table (perturbation only)
    Perturb(Vec<u8>),
    /// choice vector for the controlled scheduler
    Controlled(Vec<u8>),
}

pub fn sched_strategy(controlled: bool, max_choices: usize) -> BoxedStrategy<Sched> {
    if controlled {
        prop_oneof![
            2 => Just(Sched::Free),
            2 => vec(any::<u8>(), 1..=8).prop_map(Sched::Perturb),
            6 => vec(any::<u8>(), 0..=max_choices).prop_map(Sched::Controlled),
        ]
        .boxed()
    } else {
        prop_oneof![
            2 => Just(Sched::Free),
            2 => vec(any::<u8>(), 1..=8).prop_map(Sched::Perturb),
        ]
        .boxed()
    }
}

// ---------------------------------------------------------------------------------------------
// records that hit an exact number of distinct canonical k-mers (255, 256, 257, 1023, 1024, 1025 ...): lists of
// touched columns, sparse resets and small hash tables change their behaviour at such counts

pub const DISTINCT_TARGETS: &[usize] = &[255, 256, 257, 511, 512, 513, 1023, 1024, 1025, 2047, 2048];

/// a pseudo-random nucleotide sequence grown base by base until it contains exactly `target` distinct canonical
/// k-mers (None when k is too small for that many)
pub fn seq_with_distinct(k: usize, target: usize, seed: u64) -> Option<Vec<u8>> {
    if k == 0 || k > 31 {
        return None;
    }
    let columns = if k >= 12 { usize::MAX } else { (1usize << (2 * k)) / 2 };
    if target == 0 || (target as f64) > 0.8 * columns as f64 {
        return None;
    }
    let mask = if k == 32 { u64::MAX } else { (1u64 << (2 * k)) - 1 };
    let (mut f, mut r) = (0u64, 0u64);
    let mut seen = std::collections::HashSet::new();
    let mut out = Vec::new();
    let mut s = seed;
    while seen.len() < target && out.len() < 200_000 {
        s = crate::util::splitmix(s);
        let b = (s >> 33) & 3;
        out.push(CLEAN[b as usize]);
        f = ((f << 2) | b) & mask;
        r = (r >> 2) | ((3 - b) << (2 * (k - 1)));
        if out.len() >= k {
            seen.insert(f.min(r));
        }
    }
    if seen.len() == target {
        Some(out)
    } else {
        None
    }
}

/// replaces the sequence of one record (not the last one when there are several) by such a sequence
pub fn plant_distinct(recs: &mut Vec<Rec>, k: usize, pick: u16, seed: u64) -> Option<usize> {
    let cands: Vec<usize> = DISTINCT_TARGETS.iter().copied().filter(|&t| seq_with_distinct(k, t, 1).is_some()).collect();
    if cands.is_empty() {
        return None;
    }
    let target = cands[crate::util::idx16(pick, cands.len())];
    let seq = seq_with_distinct(k, target, seed)?;
    if recs.is_empty() {
        recs.push(Rec { id: "distinct".into(), desc: None, seq: Bytes(seq) });
    } else {
        let i = crate::util::idx16(pick.rotate_left(7), recs.len().saturating_sub(1).max(1));
        recs[i].seq = Bytes(seq);
    }
    Some(target)
}
