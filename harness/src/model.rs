//! Reference model, written from the property statements (not from the code under test).
//! std only, so that the fuzz targets can include this file by path.
#![allow(dead_code)]

/// A=0, C=1, G=2, T/U=3 in either case; everything else is not a base.
pub fn base(b: u8) -> Option<u8> {
    match b {
        b'A' | b'a' => Some(0),
        b'C' | b'c' => Some(1),
        b'G' | b'g' => Some(2),
        b'T' | b't' | b'U' | b'u' => Some(3),
        _ => None,
    }
}

pub fn is_base(b: u8) -> bool {
    base(b).is_some()
}

/// Base-4 reading of `text`, leftmost base most significant. None if a byte is not a base.
pub fn encode(text: &[u8]) -> Option<u64> {
    assert!(text.len() <= 32);
    let mut x = 0u64;
    for &b in text {
        x = x * 4 + base(b)? as u64;
    }
    Some(x)
}

pub fn decode(x: u64, k: usize) -> Vec<u8> {
    let mut out = vec![b'A'; k];
    let mut x = x;
    for i in (0..k).rev() {
        out[i] = b"ACGT"[(x % 4) as usize];
        x /= 4;
    }
    out
}

/// Complement of one byte, case preserved, U/u -> A/a, foreign bytes unchanged.
pub fn comp_byte(b: u8) -> u8 {
    match b {
        b'A' => b'T',
        b'C' => b'G',
        b'G' => b'C',
        b'T' | b'U' => b'A',
        b'a' => b't',
        b'c' => b'g',
        b'g' => b'c',
        b't' | b'u' => b'a',
        o => o,
    }
}

pub fn revcomp_text(seq: &[u8]) -> Vec<u8> {
    seq.iter().rev().map(|&b| comp_byte(b)).collect()
}

/// Reverse complement of a code, computed on the *text* (deliberately not the bit trick).
pub fn rc_code(x: u64, k: usize) -> u64 {
    encode(&revcomp_text(&decode(x, k))).unwrap()
}

pub fn pow4(k: usize) -> u64 {
    assert!(k <= 31);
    let mut p = 1u64;
    for _ in 0..k {
        p *= 4;
    }
    p
}

/// Every position whose k-window is all bases: (pos, forward code, reverse-strand code).
pub fn windows(seq: &[u8], k: usize) -> Vec<(usize, u64, u64)> {
    let mut out = Vec::new();
    if k == 0 || seq.len() < k {
        return out;
    }
    // run[i] = number of consecutive bases ending at i (inclusive)
    let mut run = 0usize;
    for i in 0..seq.len() {
        if is_base(seq[i]) {
            run += 1;
        } else {
            run = 0;
        }
        if run >= k {
            let p = i + 1 - k;
            let w = &seq[p..p + k];
            let f = encode(w).unwrap();
            let r = encode(&revcomp_text(w)).unwrap();
            out.push((p, f, r));
        }
    }
    out
}

/// Canonical form of each valid window, in order.
pub fn canonical_stream(seq: &[u8], k: usize) -> Vec<u64> {
    windows(seq, k).into_iter().map(|(_, f, r)| f.min(r)).collect()
}

pub fn closed_form_count(k: usize) -> u64 {
    if k % 2 == 0 {
        (pow4(k) + pow4(k / 2)) / 2
    } else {
        pow4(k) / 2
    }
}

/// Sorted list of the canonical k-mers (x <= rc(x)).
pub fn canonical_rank_table(k: usize) -> Vec<u64> {
    let mut v = Vec::new();
    for x in 0..pow4(k) {
        if x <= rc_code(x, k) {
            v.push(x);
        }
    }
    // increasing by construction
    v
}

pub struct RankTable {
    pub k: usize,
    pub table: Vec<u64>,
}

impl RankTable {
    pub fn new(k: usize) -> Self {
        RankTable {
            k,
            table: canonical_rank_table(k),
        }
    }
    pub fn len(&self) -> usize {
        self.table.len()
    }
    pub fn rank(&self, canon: u64) -> usize {
        self.table.binary_search(&canon).expect("canonical code must be in the table")
    }
    pub fn texts(&self) -> Vec<String> {
        self.table
            .iter()
            .map(|&x| String::from_utf8(decode(x, self.k)).unwrap())
            .collect()
    }
}

/// The same enumeration as `windows` for giant inputs: every window is still read base by base from the
/// text (no rolling state), but without building a list or allocating.
pub fn for_each_window(seq: &[u8], k: usize, mut f: impl FnMut(usize, u64, u64)) {
    if k == 0 || seq.len() < k {
        return;
    }
    let mut run = 0usize;
    for i in 0..seq.len() {
        if is_base(seq[i]) {
            run += 1;
        } else {
            run = 0;
        }
        if run >= k {
            let p = i + 1 - k;
            let (mut fw, mut rv) = (0u64, 0u64);
            for j in 0..k {
                fw = fw * 4 + base(seq[p + j]).unwrap() as u64;
                rv = rv * 4 + (3 - base(seq[p + k - 1 - j]).unwrap()) as u64;
            }
            f(p, fw, rv);
        }
    }
}

/// Per-column counts of canonical k-mers of a record and the number of valid windows.
pub fn oligo_counts(seq: &[u8], rt: &RankTable) -> (Vec<u64>, u64) {
    let mut v = vec![0u64; rt.len()];
    let mut total = 0;
    if seq.len() <= 50_000 {
        for c in canonical_stream(seq, rt.k) {
            v[rt.rank(c)] += 1;
            total += 1;
        }
    } else {
        // the two enumerations must agree on a prefix (self-check of the fast path)
        let head = &seq[..4_000];
        let mut chk = Vec::new();
        for_each_window(head, rt.k, |p, f, r| chk.push((p, f, r)));
        assert_eq!(chk, windows(head, rt.k), "model self-check: window enumerations disagree");
        for_each_window(seq, rt.k, |_, f, r| {
            v[rt.rank(f.min(r))] += 1;
            total += 1;
        });
    }
    (v, total)
}

/// Maximal runs of consecutive all-base w-windows with the same minimiser value:
/// (value, first window start, last window end).
pub fn minimiser_runs(seq: &[u8], w: usize, m: usize) -> Vec<(u64, usize, usize)> {
    let mut out: Vec<(u64, usize, usize)> = Vec::new();
    if m == 0 || w < m || seq.len() < w {
        return out;
    }
    // canonical m-mer at each start, None if the m-window holds a foreign byte
    let n = seq.len();
    let mut canon: Vec<Option<u64>> = vec![None; n];
    for p in 0..=(n - m) {
        let t = &seq[p..p + m];
        if let Some(f) = encode_opt(t) {
            let r = encode(&revcomp_text(t)).unwrap();
            canon[p] = Some(f.min(r));
        }
    }
    let mut prev: Option<(usize, u64)> = None; // (start of previous valid window, its minimiser)
    for s in 0..=(n - w) {
        let win = &seq[s..s + w];
        if !win.iter().all(|&b| is_base(b)) {
            prev = None;
            continue;
        }
        let mut mn = u64::MAX;
        for j in 0..=(w - m) {
            mn = mn.min(canon[s + j].unwrap());
        }
        match prev {
            Some((ps, pv)) if ps + 1 == s && pv == mn => {
                out.last_mut().unwrap().2 = s + w;
            }
            _ => out.push((mn, s, s + w)),
        }
        prev = Some((s, mn));
    }
    out
}

/// The same runs for giant inputs and giant windows: per clean stretch the canonical m-mers are read base
/// by base from the text and the window minimum is kept with a monotone queue (amortised O(1) per window).
/// Cross-checked against `minimiser_runs` on a prefix whenever it is used.
pub fn minimiser_runs_fast(seq: &[u8], w: usize, m: usize) -> Vec<(u64, usize, usize)> {
    let out = minimiser_runs_fast_inner(seq, w, m);
    // self-check on a prefix with a window small enough for the naive model
    let head = &seq[..seq.len().min(1500)];
    let wc = w.min(m + 40);
    assert_eq!(minimiser_runs_fast_inner(head, wc, m), minimiser_runs(head, wc, m), "model self-check: minimiser models disagree");
    out
}

fn minimiser_runs_fast_inner(seq: &[u8], w: usize, m: usize) -> Vec<(u64, usize, usize)> {
    let mut out: Vec<(u64, usize, usize)> = Vec::new();
    let n = seq.len();
    if m == 0 || w < m || n < w {
        return out;
    }
    let mut i = 0usize;
    while i < n {
        if !is_base(seq[i]) {
            i += 1;
            continue;
        }
        let mut j = i;
        while j < n && is_base(seq[j]) {
            j += 1;
        }
        // clean stretch [i, j)
        if j - i >= w {
            let cnt = j - i - m + 1; // m-mers of the stretch
            let canon: Vec<u64> = (0..cnt)
                .map(|p| {
                    let (mut f, mut r) = (0u64, 0u64);
                    for q in 0..m {
                        f = f * 4 + base(seq[i + p + q]).unwrap() as u64;
                        r = r * 4 + (3 - base(seq[i + p + m - 1 - q]).unwrap()) as u64;
                    }
                    f.min(r)
                })
                .collect();
            let span = w - m + 1; // m-mers per window
            let mut dq: std::collections::VecDeque<usize> = std::collections::VecDeque::new();
            let mut prev: Option<u64> = None;
            for p in 0..cnt {
                while let Some(&b) = dq.back() {
                    if canon[b] >= canon[p] {
                        dq.pop_back();
                    } else {
                        break;
                    }
                }
                dq.push_back(p);
                if p + 1 >= span {
                    let s = p + 1 - span; // window start (relative)
                    while *dq.front().unwrap() < s {
                        dq.pop_front();
                    }
                    let mn = canon[*dq.front().unwrap()];
                    if prev == Some(mn) {
                        out.last_mut().unwrap().2 = i + s + w;
                    } else {
                        out.push((mn, i + s, i + s + w));
                    }
                    prev = Some(mn);
                }
            }
        }
        i = j;
    }
    out
}

fn encode_opt(text: &[u8]) -> Option<u64> {
    let mut x = 0u64;
    for &b in text {
        x = x * 4 + base(b)? as u64;
    }
    Some(x)
}

// ---------------------------------------------------------------------------------------------
// CGR

/// Corner of a base as (x is S?, y is S?): A=(0,0) C=(0,S) G=(S,S) T/U=(S,0).
pub fn cgr_corner_bits(b: u8) -> Option<(bool, bool)> {
    match base(b)? {
        0 => Some((false, false)),
        1 => Some((false, true)),
        2 => Some((true, true)),
        _ => Some((true, false)),
    }
}

/// One coordinate of the CGR as an exact binary fraction: after bases with corner bits
/// b_1..b_i the coordinate is S * 0.b_i b_{i-1} ... b_1 1 (binary).
/// `bits` are the corner bits of the first i bases (b_1 first).
/// Returns (approximation as f64, whether the f64 is exactly the true value).
pub fn cgr_coord(bits: &[bool], s: u64) -> (f64, bool) {
    let i = bits.len();
    // the fraction has i+1 significant binary digits
    if i + 1 <= 64 {
        // numerator N over 2^(i+1)
        let mut n: u128 = 0;
        for d in 0..i {
            // b_i is the most significant digit
            n = (n << 1) | (bits[i - 1 - d] as u128);
        }
        n = (n << 1) | 1;
        let prod = n * s as u128; // < 2^(65+64)... s <= 2^32 assumed
        let exact = prod == 0 || (128 - prod.leading_zeros()) - prod.trailing_zeros() <= 53;
        let v = prod as f64 / 2f64.powi((i + 1) as i32);
        (v, exact)
    } else {
        // take the leading 64 digits of the fraction
        let mut f: u128 = 0;
        for d in 0..64 {
            f = (f << 1) | (bits[i - 1 - d] as u128);
        }
        let prod = f * s as u128;
        let v = prod as f64 / 2f64.powi(64);
        (v, false)
    }
}

/// Exact CGR of a nucleotide string: per base ((x, x_exact), (y, y_exact)).
pub fn cgr_points(seq: &[u8], s: u64) -> Option<Vec<((f64, bool), (f64, bool))>> {
    let mut xb = Vec::with_capacity(seq.len());
    let mut yb = Vec::with_capacity(seq.len());
    let mut out = Vec::with_capacity(seq.len());
    for &b in seq {
        let (bx, by) = cgr_corner_bits(b)?;
        xb.push(bx);
        yb.push(by);
        out.push((cgr_coord(&xb, s), cgr_coord(&yb, s)));
    }
    Some(out)
}

/// Closed sub-interval that the last `j` corner bits confine a coordinate to: [lo, lo + S/2^j].
pub fn cgr_subinterval(last_bits_latest_first: &[bool], s: u64) -> (f64, f64) {
    let j = last_bits_latest_first.len();
    assert!(j <= 30);
    let mut n: u64 = 0;
    for &b in last_bits_latest_first {
        n = (n << 1) | b as u64;
    }
    let denom = (1u64 << j) as f64;
    let lo = (n * s) as f64 / denom; // exact: n*s < 2^62, division by power of two
    (lo, lo + s as f64 / denom)
}

// ---------------------------------------------------------------------------------------------
// coverage

pub fn coverage_row(
    seq: &[u8],
    k: usize,
    counts: &std::collections::HashMap<u64, u64>,
    bin_size: u64,
    bin_count: usize,
) -> (Vec<u64>, u64) {
    let mut v = vec![0u64; bin_count];
    let mut total = 0;
    for c in canonical_stream(seq, k) {
        let cnt = *counts.get(&c).unwrap_or(&0);
        let b = ((cnt / bin_size) as usize).min(bin_count - 1);
        v[b] += 1;
        total += 1;
    }
    (v, total)
}

pub fn count_table(records: &[&[u8]], k: usize) -> std::collections::HashMap<u64, u64> {
    let mut m = std::collections::HashMap::new();
    for r in records {
        for c in canonical_stream(r, k) {
            *m.entry(c).or_insert(0) += 1;
        }
    }
    m
}

#[cfg(test)]
mod tests {
    use super::*;
    #[test]
    fn basics() {
        assert_eq!(encode(b"ACGT"), Some(0b00011011));
        assert_eq!(decode(0b00011011, 4), b"ACGT");
        assert_eq!(rc_code(0b001101101011, 6), 0b000101100011);
        assert_eq!(canonical_rank_table(4).len(), 136);
        assert_eq!(closed_form_count(4), 136);
        assert_eq!(closed_form_count(3), 32);
        assert_eq!(windows(b"ACNGTT", 2).iter().map(|w| w.0).collect::<Vec<_>>(), vec![0, 3, 4]);
        let (x, e) = cgr_coord(&[true], 1);
        assert!(e && x == 0.75);
        let (x, e) = cgr_coord(&[], 1);
        assert!(e && x == 0.5);
    }
}
