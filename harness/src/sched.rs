//! Harness-owned scheduler on top of the `ktio::verif::point` hook.
//!
//! Controlled mode: a worker arriving at `<site>.taken(n)` blocks; when every one of the T workers
//! is either blocked or has exited, the next element of the generated choice vector picks which
//! blocked worker (ordered by record number) runs next. Exactly one worker runs at a time, so the
//! execution is a deterministic function of the choice vector.
use crate::gen::Sched;
use std::sync::{Arc, Condvar, Mutex};
use std::time::{Duration, Instant};

#[derive(Default, Clone, Debug)]
pub struct SchedReport {
    /// number of blocked workers at each decision
    pub branching: Vec<usize>,
    /// record numbers in the order they were released
    pub order: Vec<usize>,
    pub degraded: u32,
    pub decisions: u32,
}

struct St {
    choices: Vec<u8>,
    next_choice: usize,
    blocked: Vec<(usize, u64)>,
    released: Option<u64>,
    exited: usize,
    free_run: bool,
    tickets: u64,
    last_progress: Instant,
    report: SchedReport,
}

pub struct Controlled {
    st: Mutex<St>,
    cv: Condvar,
    t: usize,
    taken: &'static str,
    exit: &'static str,
}

static ACTIVE: Mutex<Option<Arc<Controlled>>> = Mutex::new(None);

/// called from the panic hook: let every blocked worker go so that scopes can finish
pub fn abort_all() {
    let a = ACTIVE.lock().unwrap_or_else(|e| e.into_inner()).clone();
    if let Some(c) = a {
        let mut st = c.st.lock().unwrap_or_else(|e| e.into_inner());
        st.free_run = true;
        drop(st);
        c.cv.notify_all();
    }
}

impl Controlled {
    fn decide(&self, st: &mut St) {
        if st.blocked.is_empty() || st.released.is_some() {
            return;
        }
        st.blocked.sort();
        let len = st.blocked.len();
        let c = st.choices.get(st.next_choice).copied().unwrap_or(0) as usize;
        st.next_choice += 1;
        let idx = (c * len) >> 8;
        let (n, ticket) = st.blocked.remove(idx);
        st.released = Some(ticket);
        st.report.branching.push(len);
        st.report.order.push(n);
        st.report.decisions += 1;
        st.last_progress = Instant::now();
        self.cv.notify_all();
    }

    fn on_point(&self, site: &'static str, n: usize) {
        let mut st = self.st.lock().unwrap_or_else(|e| e.into_inner());
        if st.free_run {
            return;
        }
        if site == self.exit {
            st.exited += 1;
            if st.exited >= self.t {
                // epoch over (the counter starts a new epoch per chunk)
                st.exited = 0;
            } else if st.blocked.len() + st.exited == self.t {
                self.decide(&mut st);
            }
            return;
        }
        if site != self.taken {
            return;
        }
        st.tickets += 1;
        let ticket = st.tickets;
        st.blocked.push((n, ticket));
        if st.blocked.len() + st.exited == self.t {
            self.decide(&mut st);
        }
        loop {
            if st.free_run {
                return;
            }
            if st.released == Some(ticket) {
                st.released = None;
                st.last_progress = Instant::now();
                return;
            }
            let (g, to) = self
                .cv
                .wait_timeout(st, Duration::from_millis(50))
                .unwrap_or_else(|e| e.into_inner());
            st = g;
            if to.timed_out()
                && st.released.is_none()
                && !st.blocked.is_empty()
                && st.last_progress.elapsed() > Duration::from_millis(1500)
            {
                // quiescence not reached (not all T tasks started on distinct threads): degrade
                st.report.degraded += 1;
                st.blocked.sort();
                let (n0, t0) = st.blocked.remove(0);
                st.released = Some(t0);
                st.report.order.push(n0);
                st.last_progress = Instant::now();
                self.cv.notify_all();
            }
        }
    }
}

pub struct Guard {
    ctl: Option<Arc<Controlled>>,
}

impl Guard {
    pub fn report(&self) -> SchedReport {
        match &self.ctl {
            Some(c) => c.st.lock().unwrap_or_else(|e| e.into_inner()).report.clone(),
            None => SchedReport::default(),
        }
    }
}

impl Drop for Guard {
    fn drop(&mut self) {
        ktio::verif::set_point(None);
        *ACTIVE.lock().unwrap_or_else(|e| e.into_inner()) = None;
    }
}

/// Install the schedule for one execution. `taken`/`exit` name the two hook sites, `perturb_site`
/// the site used for perturbation; `threads` is the number of workers the kernel will start.
pub fn install(s: &Sched, threads: usize, taken: &'static str, exit: &'static str) -> Guard {
    match s {
        Sched::Free => {
            ktio::verif::set_point(None);
            Guard { ctl: None }
        }
        Sched::Perturb(table) => {
            let table = table.clone();
            ktio::verif::set_point(Some(Arc::new(move |site: &'static str, n: usize| {
                if n == usize::MAX || table.is_empty() || !(site == taken || site.ends_with(".map")) {
                    return;
                }
                let spins = table[n % table.len()] as u32;
                for i in 0..spins {
                    if i % 4 == 0 {
                        std::thread::yield_now();
                    } else {
                        std::hint::spin_loop();
                    }
                }
                if spins > 200 {
                    std::thread::sleep(Duration::from_micros((spins - 200) as u64 * 4));
                }
            })));
            Guard { ctl: None }
        }
        Sched::Controlled(choices) => {
            let c = Arc::new(Controlled {
                st: Mutex::new(St {
                    choices: choices.clone(),
                    next_choice: 0,
                    blocked: Vec::new(),
                    released: None,
                    exited: 0,
                    free_run: false,
                    tickets: 0,
                    last_progress: Instant::now(),
                    report: SchedReport::default(),
                }),
                cv: Condvar::new(),
                t: threads,
                taken,
                exit,
            });
            *ACTIVE.lock().unwrap_or_else(|e| e.into_inner()) = Some(c.clone());
            let c2 = c.clone();
            ktio::verif::set_point(Some(Arc::new(move |site: &'static str, n: usize| c2.on_point(site, n))));
            Guard { ctl: Some(c) }
        }
    }
}

/// byte that makes the controlled scheduler pick index `idx` among `len` blocked workers
pub fn choice_byte(idx: usize, len: usize) -> u8 {
    let c = (idx * 256 + len - 1) / len;
    debug_assert!((c * len) >> 8 == idx && c < 256);
    c as u8
}

/// Depth-first enumeration of all schedules: call `run(choices)` which must return the branching
/// vector observed; returns the number of schedules executed (stops at `limit` or when `run`
/// returns None = stop requested).
pub fn enumerate_schedules(limit: usize, mut run: impl FnMut(&[u8]) -> Option<Vec<usize>>) -> (usize, bool) {
    let mut prefix: Vec<usize> = Vec::new();
    let mut count = 0usize;
    loop {
        let bytes: Vec<u8> = prefix.iter().map(|&(i)| i as u8).collect();
        let branching = match run(&bytes) {
            Some(b) => b,
            None => return (count + 1, false),
        };
        count += 1;
        if count >= limit {
            return (count, false);
        }
        // current index vector: prefix indices then zeros
        let mut idxs: Vec<usize> = (0..branching.len())
            .map(|i| {
                if i < prefix.len() {
                    (prefix[i] * branching[i]) >> 8
                } else {
                    0
                }
            })
            .collect();
        // next in lexicographic order
        let mut pos = branching.len();
        loop {
            if pos == 0 {
                return (count, true);
            }
            pos -= 1;
            if idxs[pos] + 1 < branching[pos] {
                idxs[pos] += 1;
                idxs.truncate(pos + 1);
                break;
            }
        }
        prefix = idxs
            .iter()
            .enumerate()
            .map(|(i, &ix)| choice_byte(ix, branching[i]) as usize)
            .collect();
    }
}
