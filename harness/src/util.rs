use serde::{Deserialize, Deserializer, Serialize, Serializer};
use std::fmt;

pub fn splitmix(mut x: u64) -> u64 {
    x = x.wrapping_add(0x9E3779B97F4A7C15);
    let mut z = x;
    z = (z ^ (z >> 30)).wrapping_mul(0xBF58476D1CE4E5B9);
    z = (z ^ (z >> 27)).wrapping_mul(0x94D049BB133111EB);
    z ^ (z >> 31)
}

pub fn mix_seed(seed: u64, prop: &str, leg: &str, shard: usize) -> u64 {
    let mut h = splitmix(seed ^ 0xC0FFEE);
    for b in prop.bytes().chain([0u8]).chain(leg.bytes()) {
        h = splitmix(h ^ b as u64);
    }
    splitmix(h ^ (shard as u64).wrapping_mul(0x9E37_79B9))
}

pub fn fnv64(bytes: &[u8]) -> u64 {
    let mut h = 0xcbf29ce484222325u64;
    for &b in bytes {
        h ^= b as u64;
        h = h.wrapping_mul(0x100000001b3);
    }
    h
}

/// Byte string that serialises as printable text when it is printable ASCII, else as "hex:..".
#[derive(Clone, PartialEq, Eq, Hash, Default)]
pub struct Bytes(pub Vec<u8>);

impl fmt::Debug for Bytes {
    fn fmt(&self, f: &mut fmt::Formatter<'_>) -> fmt::Result {
        write!(f, "{:?}", render_bytes(&self.0))
    }
}

pub fn render_bytes(b: &[u8]) -> String {
    if b.iter().all(|&c| (0x20..0x7f).contains(&c)) && !b.starts_with(b"hex:") {
        String::from_utf8(b.to_vec()).unwrap()
    } else {
        let mut s = String::from("hex:");
        for c in b {
            s.push_str(&format!("{:02x}", c));
        }
        s
    }
}

pub fn parse_bytes(s: &str) -> Result<Vec<u8>, String> {
    if let Some(h) = s.strip_prefix("hex:") {
        if h.len() % 2 != 0 {
            return Err("odd hex".into());
        }
        (0..h.len() / 2)
            .map(|i| u8::from_str_radix(&h[2 * i..2 * i + 2], 16).map_err(|e| e.to_string()))
            .collect()
    } else {
        Ok(s.as_bytes().to_vec())
    }
}

impl Serialize for Bytes {
    fn serialize<S: Serializer>(&self, s: S) -> Result<S::Ok, S::Error> {
        s.serialize_str(&render_bytes(&self.0))
    }
}

impl<'de> Deserialize<'de> for Bytes {
    fn deserialize<D: Deserializer<'de>>(d: D) -> Result<Self, D::Error> {
        let s = String::deserialize(d)?;
        parse_bytes(&s).map(Bytes).map_err(serde::de::Error::custom)
    }
}

impl std::ops::Deref for Bytes {
    type Target = [u8];
    fn deref(&self) -> &[u8] {
        &self.0
    }
}

/// monotone index map (shrinks towards 0): i in 0..=65535 -> 0..len
pub fn idx16(i: u16, len: usize) -> usize {
    ((i as usize) * len) >> 16
}

pub fn trunc(s: &str, n: usize) -> String {
    if s.len() <= n {
        s.to_string()
    } else {
        let mut e = n;
        while !s.is_char_boundary(e) {
            e -= 1;
        }
        format!("{}…(+{} bytes)", &s[..e], s.len() - e)
    }
}

/// a copy of `seq` whose first byte sits at an address congruent to `t` modulo 16; the sequence is
/// surrounded by bytes that are NOT part of the slice handed out (a word-wise reader that looks before
/// or behind the slice would see nucleotides there)
pub struct Aligned {
    buf: Vec<u8>,
    start: usize,
    len: usize,
}

impl Aligned {
    pub fn new(seq: &[u8], t: usize) -> Self {
        let mut buf = vec![b'A'; seq.len() + 48];
        let base = buf.as_ptr() as usize;
        let start = 16 + ((t + 16 - (base + 16) % 16) % 16);
        buf[start..start + seq.len()].copy_from_slice(seq);
        Aligned { buf, start, len: seq.len() }
    }
    pub fn get(&self) -> &[u8] {
        &self.buf[self.start..self.start + self.len]
    }
}
