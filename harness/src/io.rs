//! Serialisers for generated record lists and parsers for every output format.
#![allow(dead_code)]
use crate::gen::{Container, Format, Rec};
use flate2::write::GzEncoder;
use flate2::Compression;
use std::io::Write;
use std::path::{Path, PathBuf};

pub fn header_line(r: &Rec) -> String {
    match &r.desc {
        Some(d) => format!("{} {}", r.id, d),
        None => r.id.clone(),
    }
}

/// text of the file before compression
pub fn serialise_text(recs: &[Rec], c: &Container) -> Vec<u8> {
    let nl: &[u8] = if c.crlf { b"\r\n" } else { b"\n" };
    let mut out = Vec::new();
    for r in recs {
        match &c.format {
            Format::Fasta { wrap } => {
                out.push(b'>');
                out.extend_from_slice(header_line(r).as_bytes());
                out.extend_from_slice(nl);
                match wrap {
                    None => {
                        // a record without bases has no sequence line at all
                        if !r.seq.0.is_empty() {
                            out.extend_from_slice(&r.seq.0);
                            out.extend_from_slice(nl);
                        }
                    }
                    Some(wd) => {
                        for chunk in r.seq.0.chunks((*wd).max(1)) {
                            out.extend_from_slice(chunk);
                            out.extend_from_slice(nl);
                        }
                    }
                }
            }
            Format::Fastq { qual_seed, wrap } => {
                out.push(b'@');
                out.extend_from_slice(header_line(r).as_bytes());
                out.extend_from_slice(nl);
                let mut qual = Vec::with_capacity(r.seq.0.len());
                let mut s = *qual_seed ^ (r.seq.0.len() as u64);
                for _ in 0..r.seq.0.len() {
                    s = crate::util::splitmix(s);
                    // printable qualities '!'..='~' (may include '@' and '+', also as first character)
                    qual.push(b'!' + ((s >> 20) % 94) as u8);
                }
                match wrap {
                    None => {
                        out.extend_from_slice(&r.seq.0);
                        out.extend_from_slice(nl);
                        out.push(b'+');
                        out.extend_from_slice(nl);
                        out.extend_from_slice(&qual);
                        out.extend_from_slice(nl);
                    }
                    Some(wd) => {
                        let wd = (*wd).max(1);
                        for chunk in r.seq.0.chunks(wd) {
                            out.extend_from_slice(chunk);
                            out.extend_from_slice(nl);
                        }
                        out.push(b'+');
                        out.extend_from_slice(nl);
                        for chunk in qual.chunks_mut(wd) {
                            if chunk[0] == b'@' || chunk[0] == b'+' {
                                chunk[0] = b'I';
                            }
                            out.extend_from_slice(chunk);
                            out.extend_from_slice(nl);
                        }
                    }
                }
            }
        }
    }
    if !c.final_newline && out.ends_with(nl) {
        out.truncate(out.len() - nl.len());
    }
    out
}

/// full file bytes (gzip members when requested)
pub fn serialise(recs: &[Rec], c: &Container) -> Vec<u8> {
    let text = serialise_text(recs, c);
    match &c.gz {
        None => text,
        Some(members) => {
            let mut out = Vec::new();
            let mut rest: &[u8] = &text;
            let n = members.len().max(1);
            for (i, m) in members.iter().enumerate() {
                let part: &[u8] = if i + 1 == n {
                    rest
                } else if let Some(x) = m.exact {
                    &rest[..x.min(rest.len())]
                } else {
                    let cut = ((m.cut as usize) * (rest.len() + 1)) >> 16;
                    &rest[..cut]
                };
                rest = &rest[part.len()..];
                let mut enc = GzEncoder::new(Vec::new(), if m.stored { Compression::none() } else { Compression::default() });
                enc.write_all(part).unwrap();
                out.extend_from_slice(&enc.finish().unwrap());
            }
            out
        }
    }
}

pub fn write_input(dir: &Path, stem: &str, recs: &[Rec], c: &Container) -> PathBuf {
    let p = dir.join(format!("{}{}", stem, c.suffix()));
    std::fs::write(&p, serialise(recs, c)).unwrap();
    p
}

thread_local! {
    /// when > 0, the executors put this many bytes of left-over text at their output path before the run
    /// (an earlier, longer result): the run must replace it, not write into it
    pub static STALE: std::cell::Cell<usize> = std::cell::Cell::new(0);
}

pub fn set_stale(n: usize) {
    STALE.with(|s| s.set(n));
}

/// called by the executors with the path they are about to produce
pub fn plant_stale(p: &Path) {
    let n = STALE.with(|s| s.get());
    let _ = std::fs::remove_file(p);
    if n > 0 {
        let line = b"left-over line of an earlier and longer result 0.123456 0.654321 7 8 9\n";
        let mut junk = Vec::with_capacity(n + line.len());
        while junk.len() < n {
            junk.extend_from_slice(line);
        }
        std::fs::write(p, &junk).unwrap();
    }
}

pub fn stale_strategy() -> proptest::strategy::BoxedStrategy<u32> {
    use proptest::prelude::*;
    prop_oneof![5 => Just(0u32), 1 => 1u32..=4_000, 1 => 4_000u32..=300_000].boxed()
}

pub fn path_str(p: &Path) -> String {
    p.to_string_lossy().to_string()
}

// ---------------------------------------------------------------------------------------------
// parsers

/// split an output into lines; a final newline is required for every line
pub fn lines_strict(data: &[u8]) -> Result<Vec<String>, String> {
    let s = String::from_utf8(data.to_vec()).map_err(|e| format!("output is not UTF-8: {}", e))?;
    if s.is_empty() {
        return Ok(vec![]);
    }
    if !s.ends_with('\n') {
        return Err(format!("output does not end with a newline (last bytes {:?})", &s[s.len().saturating_sub(20)..]));
    }
    Ok(s[..s.len() - 1].split('\n').map(|l| l.to_string()).collect())
}

/// parse a row of numbers separated by `delim`
pub fn parse_row(line: &str, delim: &str) -> Result<Vec<f64>, String> {
    if line.is_empty() {
        return Ok(vec![]);
    }
    let parts: Vec<&str> = if delim.is_empty() { vec![line] } else { line.split(delim).collect() };
    parts
        .iter()
        .map(|t| {
            let v: f64 = t.parse().map_err(|_| format!("not a number: {:?} in row {:?}", t, crate::util::trunc(line, 80)))?;
            if !v.is_finite() {
                return Err(format!("non-finite number {:?}", t));
            }
            Ok(v)
        })
        .collect()
}

/// parse "(x,y) (x,y) ..." or "(x,y,f) ..." with `arity` components
pub fn parse_tuples(line: &str, arity: usize) -> Result<Vec<Vec<f64>>, String> {
    if line.is_empty() {
        return Ok(vec![]);
    }
    line.split(' ')
        .map(|t| {
            let inner = t
                .strip_prefix('(')
                .and_then(|x| x.strip_suffix(')'))
                .ok_or_else(|| format!("malformed tuple {:?}", t))?;
            let nums: Result<Vec<f64>, String> = inner
                .split(',')
                .map(|n| n.parse::<f64>().map_err(|_| format!("not a number {:?} in tuple {:?}", n, t)))
                .collect();
            let nums = nums?;
            if nums.len() != arity {
                return Err(format!("tuple {:?} has {} components, expected {}", t, nums.len(), arity));
            }
            if nums.iter().any(|v| !v.is_finite()) {
                return Err(format!("non-finite number in tuple {:?}", t));
            }
            Ok(nums)
        })
        .collect()
}

/// `kmer \t count` lines
pub fn parse_counts(data: &[u8]) -> Result<Vec<(String, u64)>, String> {
    let mut out = Vec::new();
    for l in lines_strict(data)? {
        let mut it = l.split('\t');
        let k = it.next().ok_or("empty line")?.to_string();
        let c = it.next().ok_or_else(|| format!("no count in line {:?}", l))?;
        if it.next().is_some() {
            return Err(format!("extra column in line {:?}", l));
        }
        let c: u64 = c.parse().map_err(|_| format!("bad count in line {:?}", l))?;
        out.push((k, c));
    }
    Ok(out)
}

/// one s2m line: id \t text:start-end \t ... \t   -> (id, runs)
pub fn parse_s2m_line(l: &str) -> Result<(String, Vec<(String, usize, usize)>), String> {
    let mut parts: Vec<&str> = l.split('\t').collect();
    if parts.len() < 2 || parts.last() != Some(&"") {
        return Err(format!("s2m line does not end with a tab: {:?}", crate::util::trunc(l, 100)));
    }
    parts.pop();
    let id = parts[0].to_string();
    let mut runs = Vec::new();
    for p in &parts[1..] {
        let (t, r) = p.split_once(':').ok_or_else(|| format!("bad run {:?}", p))?;
        let (s, e) = r.split_once('-').ok_or_else(|| format!("bad range {:?}", p))?;
        runs.push((
            t.to_string(),
            s.parse().map_err(|_| format!("bad start {:?}", p))?,
            e.parse().map_err(|_| format!("bad end {:?}", p))?,
        ));
    }
    Ok((id, runs))
}

/// one m2s line: text \t [("id", s, e), ("id", s, e)]
pub fn parse_m2s_line(l: &str) -> Result<(String, Vec<(String, usize, usize)>), String> {
    let (text, list) = l.split_once('\t').ok_or_else(|| format!("no tab in m2s line {:?}", crate::util::trunc(l, 100)))?;
    let inner = list
        .strip_prefix('[')
        .and_then(|x| x.strip_suffix(']'))
        .ok_or_else(|| format!("bad list {:?}", crate::util::trunc(list, 100)))?;
    let mut out = Vec::new();
    if !inner.is_empty() {
        for item in inner.split("), (") {
            let item = item.trim_start_matches('(').trim_end_matches(')');
            // "id", s, e   (ids are restricted so that Debug rendering is the identity)
            let mut it = item.rsplitn(3, ", ");
            let e = it.next().ok_or("bad item")?;
            let s = it.next().ok_or("bad item")?;
            let id = it.next().ok_or("bad item")?;
            let id = id
                .strip_prefix('"')
                .and_then(|x| x.strip_suffix('"'))
                .ok_or_else(|| format!("bad id {:?}", id))?;
            out.push((
                id.to_string(),
                s.parse().map_err(|_| format!("bad start in {:?}", item))?,
                e.parse().map_err(|_| format!("bad end in {:?}", item))?,
            ));
        }
    }
    Ok((text.to_string(), out))
}
