//! Decoding of fuzzer bytes into structured arguments. std only: included by path both by the fuzz
//! targets (/verif/fuzz) and by the harness (to turn a crash artifact into a replay case).
#![allow(dead_code)]

/// one input byte -> one sequence byte: 0x00..=0x0f select from a nucleotide-rich palette (so that
/// mutation reaches real k-mers quickly), every other value is taken as it is
pub fn seq_byte(b: u8) -> u8 {
    const PAL: &[u8; 16] = b"ACGTacgtUuNnRY-*";
    if b < 16 {
        PAL[b as usize]
    } else {
        b
    }
}

pub fn seq_bytes(data: &[u8]) -> Vec<u8> {
    data.iter().map(|&b| seq_byte(b)).collect()
}

/// (k, seq)
pub fn kmer_iter(data: &[u8]) -> Option<(usize, Vec<u8>)> {
    let (&b0, rest) = data.split_first()?;
    Some((1 + (b0 % 31) as usize, seq_bytes(rest)))
}

/// (w, m, seq) with 1 <= m <= w, m <= 31, w <= m + 60
pub fn minimiser(data: &[u8]) -> Option<(usize, usize, Vec<u8>)> {
    if data.len() < 2 {
        return None;
    }
    let m = 1 + (data[0] % 31) as usize;
    let w = m + (data[1] % 61) as usize;
    Some((w, m, seq_bytes(&data[2..])))
}

/// (S, seq) — the sequence keeps arbitrary bytes: rejection is part of the target
pub fn cgr(data: &[u8]) -> Option<(u64, Vec<u8>)> {
    if data.len() < 3 {
        return None;
    }
    let s = 1 + ((data[0] as u64) | ((data[1] as u64) << 8) | (((data[2] & 0x0f) as u64) << 16));
    Some((s.min(1 << 20), seq_bytes(&data[3..])))
}

/// (k 1..=6, norm, seq)
pub fn oligo(data: &[u8]) -> Option<(usize, bool, Vec<u8>)> {
    let (&b0, rest) = data.split_first()?;
    Some((1 + (b0 % 6) as usize, b0 & 0x80 != 0, seq_bytes(rest)))
}

pub struct FastxRec {
    pub id: String,
    pub desc: Option<String>,
    pub seq: Vec<u8>,
}

pub struct Fastx {
    pub fastq: bool,
    pub wrap: Option<usize>,
    pub crlf: bool,
    pub final_newline: bool,
    pub recs: Vec<FastxRec>,
}

/// records and serialisation parameters: header byte, then records separated by 0xff;
/// within a record the first byte gives the id length (1..=8) and description flag
pub fn fastx(data: &[u8]) -> Option<Fastx> {
    let (&h, rest) = data.split_first()?;
    let mut recs = Vec::new();
    const IDC: &[u8] = b"abcdefghijklmnopqrstuvwxyzABCDEFGHIJKLMNOPQRSTUVWXYZ0123456789_.:#|-";
    for (n, chunk) in rest.split(|&b| b == 0xff).enumerate() {
        if recs.len() >= 64 {
            break;
        }
        let (&c0, body) = match chunk.split_first() {
            Some(x) => x,
            None => continue,
        };
        let idl = 1 + (c0 & 7) as usize;
        let idl = idl.min(body.len());
        let mut id: String = body[..idl].iter().map(|&b| IDC[b as usize % IDC.len()] as char).collect();
        id.push_str(&format!("_{}", n));
        let desc = if c0 & 8 != 0 { Some(format!("d{} x", c0)) } else { None };
        // sequence bytes restricted to what a FASTA/FASTQ line can hold
        let seq: Vec<u8> = body[idl..]
            .iter()
            .map(|&b| {
                const PAL: &[u8] = b"ACGTacgtUuNnRYKMSWBDHVX-*.";
                PAL[b as usize % PAL.len()]
            })
            .collect();
        recs.push(FastxRec { id, desc, seq });
    }
    let fastq = h & 1 != 0 && !recs.is_empty() && recs.iter().all(|r| !r.seq.is_empty());
    let wrap = if h & 2 != 0 && !fastq { Some(1 + (h >> 4) as usize * 5) } else { None };
    Some(Fastx { fastq, wrap, crlf: h & 4 != 0, final_newline: h & 8 == 0, recs })
}

pub fn fastx_text(f: &Fastx) -> Vec<u8> {
    let nl: &[u8] = if f.crlf { b"\r\n" } else { b"\n" };
    let mut out = Vec::new();
    for r in &f.recs {
        out.push(if f.fastq { b'@' } else { b'>' });
        out.extend_from_slice(r.id.as_bytes());
        if let Some(d) = &r.desc {
            out.push(b' ');
            out.extend_from_slice(d.as_bytes());
        }
        out.extend_from_slice(nl);
        if f.fastq {
            out.extend_from_slice(&r.seq);
            out.extend_from_slice(nl);
            out.push(b'+');
            out.extend_from_slice(nl);
            out.extend(std::iter::repeat(b'I').take(r.seq.len()));
            out.extend_from_slice(nl);
        } else {
            match f.wrap {
                None => {
                    if !r.seq.is_empty() {
                        out.extend_from_slice(&r.seq);
                        out.extend_from_slice(nl);
                    }
                }
                Some(w) => {
                    for c in r.seq.chunks(w.max(1)) {
                        out.extend_from_slice(c);
                        out.extend_from_slice(nl);
                    }
                }
            }
        }
    }
    if !f.final_newline && out.ends_with(nl) {
        out.truncate(out.len() - nl.len());
    }
    out
}
