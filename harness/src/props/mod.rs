pub mod c01;

use crate::engine::{Ctx, Verdict};
use serde_json::Value;

pub struct PropInfo {
    pub id: &'static str,
    pub run: fn(&mut Ctx),
    pub replay: fn(&str, &Value) -> Option<Result<Verdict, String>>,
    /// shards (quick, thorough)
    pub shards: (usize, usize),
    /// watchdog seconds per shard (quick, thorough)
    pub watchdog: (u64, u64),
    pub rule: &'static str,
    pub assumptions: &'static [&'static str],
    /// a dead shard (abort / SIGSEGV) is a violation of this property
    pub abort_is_violation: bool,
}

pub fn all() -> Vec<PropInfo> {
    vec![PropInfo {
        id: "C01",
        run: c01::run,
        replay: c01::replay,
        shards: (8, 16),
        watchdog: (300, 3600),
        rule: "cases (seq, k) drawn by SeqGen x k in 1..=31 and compared with the naive window-scan model; \
               non-trivial = at least one window is emitted and (a foreign byte is present or k >= 16 or a lower-case/U base); \
               distinct by hash of (seq, k)",
        assumptions: &["bytes 0x00-0x03 are never generated (left unspecified by the property)", "k outside 1..=31 never generated"],
        abort_is_violation: false,
    }]
}

pub fn find(id: &str) -> Option<PropInfo> {
    all().into_iter().find(|p| p.id == id)
}

pub fn oracle_server() {
    eprintln!("oracle-server not built yet");
    std::process::exit(2);
}

pub fn corpus(_target: &str, _dir: &str) {
    eprintln!("corpus not built yet");
    std::process::exit(2);
}
