pub mod c01;
pub mod c02;
pub mod c03;
pub mod c04;
pub mod c05;
pub mod c14;
pub mod c15;
pub mod c16;
pub mod c17;
pub mod cmd;
pub mod coldstart;
pub mod sessions;
pub mod pysessions;
pub mod oligo_exec;
pub mod c06;
pub mod c07;
pub mod c08;
pub mod c09;
pub mod c10;
pub mod c11;
pub mod c12;
pub mod c13;
pub mod c18;

use crate::engine::{Ctx, Verdict};
use serde_json::Value;

pub struct PropInfo {
    pub id: &'static str,
    pub run: fn(&mut Ctx),
    pub replay: fn(&str, &Value) -> Option<Result<Verdict, String>>,
    /// shards (quick, thorough)
    pub shards: (usize, usize),
    /// watchdog seconds per shard (quick, thorough)
    pub watchdog: (u64, u64),
    pub rule: &'static str,
    pub assumptions: &'static [&'static str],
    /// a dead shard (abort / SIGSEGV) is a violation of this property
    pub abort_is_violation: bool,
}

pub fn all() -> Vec<PropInfo> {
    vec![PropInfo {
        id: "C01",
        run: c01::run,
        replay: c01::replay,
        shards: (8, 16),
        watchdog: (300, 3600),
        rule: "cases (seq, k) drawn by SeqGen x k in 1..=31 and compared with the naive window-scan model, through the core iterator and (as UTF-8 strings, bytes >= 0x80 mapped to two-byte characters) through pykmertools.KmerGenerator; \
               non-trivial = at least one window is emitted and (a foreign byte is present or k >= 16 or a lower-case/U base); \
               distinct by hash of (seq, k) \
               plus giant sequences (66 000 bases to 2.3 M quick / 17.5 M thorough; periodic, homopolymer, pseudo-random; foreign edits) compared item by item with a streaming enumeration of the model (Python: count and digest), and cold-start cases: a fresh process whose 2-16 threads make their first iterator calls together \
               every case up to 4096 bytes is repeated at each address alignment modulo 16; call histories on one thread (up to four iterators alive, generated interleaving of next / count / last / fold / for_each / collect / nth / skip / take, early drops and rebuilds, every item against the model); equal-length strings that live only for the Python constructor call; bytes >= 0x80 become characters of a table of Unicode confusables in the Python legs",
        assumptions: &["bytes 0x00-0x03 are never generated (left unspecified by the property)", "k outside 1..=31 never generated"],
        abort_is_violation: false,
    },
    PropInfo {
        id: "C02",
        run: c02::run,
        replay: c02::replay,
        shards: (8, 16),
        watchdog: (300, 3600),
        rule: "(a) every code x < 4^k enumerated for small k and sampled (uniform, extremes, palindromes, single-bit patterns, top digit set) for k up to 31: \
               involution, agreement with text-level reverse complement, decode/encode round trip; non-trivial = x not in {0, 4^k-1}. \
               (a') pykmertools to_acgt of both iterator classes against the model's decoding; (b) sequences x k: each pair's second component is the reverse complement of the first, the stream of the reverse-complemented text is the mirrored stream, \
               canonical multisets agree; non-trivial = at least 2 windows and seq != its reverse complement; distinct by hash of the case \
               plus cold-start cases (fresh process, 2-16 threads released together, first calls of rev_comp / numeric_to_kmer / the iterator on generated arguments) \
               sequences with raw bytes 0x00-0x03 for the clause 'second component = reverse complement of the first'; Python to_acgt inside the iteration loop, after it, and for families of codes sharing low / high digits on one object \
               the stream clauses also through pykmertools.KmerGenerator on sequences of several kilobytes with kilobyte stretches of N",
        assumptions: &["codes >= 4^k are never passed (unspecified)", "reverse complement of a foreign byte is itself; U complements to A"],
        abort_is_violation: false,
    },
    PropInfo {
        id: "C03",
        run: c03::run,
        replay: c03::replay,
        shards: (4, 8),
        watchdog: (300, 3600),
        rule: "one evaluation = one (k, code) pair of the exhaustive enumeration of all 4^k codes (plus one structural check per k and one per header source); \
               non-trivial = the code is canonical (its column is specified); entries of the k-mer->index vector at non-canonical codes are not inspected; distinct by (k, code) \
               CLI headers are taken on five inputs (one record, empty .fa, empty .fq, three records, three records on stdin) and every data row must have as many values as the header names; plus cold-start cases: rank tables for several k per thread, any order, 2-16 threads at once in a fresh process \
               histories of up to 1200 table constructions on one thread (runs next to 256 and 512 calls); Python header after the caller edited the list it got; CLI header inputs with a short / empty first record",
        assumptions: &["header via the executable is checked for k in 3..=7 (the range the CLI accepts) and all three presets, in normalised and counts mode"],
        abort_is_violation: false,
    },
    PropInfo {
        id: "C04",
        run: c04::run,
        replay: c04::replay,
        shards: (8, 16),
        watchdog: (600, 7200),
        rule: "records (SeqGen incl. foreign bytes, low-complexity and palindromic content, degenerate lengths) x k in 1..=8 x {normalised, counts}: (1) the per-sequence routine compared unrounded with model counts; \
               (2) the file API through both writers, (3) the executable (k 3..=7) and (4) pykmertools.OligoComputer.vectorise_one through a python3-vt worker; in (2)/(3) every record is followed by its reverse-complement, lower-case and T->U variants so that the invariances are checked on the same output; \
               values: exact integers in counts mode, within 5e-7 of count/total in normalised mode; non-trivial = some record has >= 2 distinct non-zero columns; distinct by hash of the case \
               (5) giant records of 60 000 to 3.4 M (17.5 M) bases, one third homopolymers with a single other base at an end (a frequency that rounds up to 1.000000), through both writers and through Python \
               the Python leg feeds non-ASCII text (confusables); reads of one length with a few N",
        assumptions: &["normalised text compared with a tolerance of 5e-7 + 1e-12 (\"correct to 6 decimals\"), variant rows within 1e-6", "the Python leg feeds ASCII strings (bytes >= 0x80 masked); non-ASCII input is C13's subject"],
        abort_is_violation: false,
    },
    PropInfo {
        id: "C05",
        run: c05::run,
        replay: c05::replay,
        shards: (8, 16),
        watchdog: (600, 7200),
        rule: "record lists (0..=40 quick / 300 thorough) x k 1..=4 x threads 1..=16 x batch limit {1 byte, one record, three records, half, 4 GiB} x writer {mmap, batch} x norm x header x 3 delimiters x container (FASTA, wrapped, CRLF, FASTQ, gzip incl. multi-member) x schedule (free, perturbed, controlled choice vector); \
               oracle: baseline (1 thread, batch writer, single-line FASTA) matches the model row by row, the generated configuration gives identical bytes, header-on = header line + header-off bytes; plus bounded-exhaustive enumeration of all hook-granularity schedules of the mmap writer for small inputs; \
               non-trivial = >= 3 records and (threads >= 2 or >= 2 batches or a non-FIFO controlled schedule or a non-baseline container); distinct by hash of the case \
               plus big outputs: a record list repeated until the output has 64 KiB, 1, 4, 8 (16, 32) MiB, k 3..=8, optional long first record \
               left-over output at the output path, record starts aligned to 4 KiB .. 2 MiB of the text, multi-line FASTQ, nameless records, records whose window total is a multiple of 128 / 640 (decimal ties)",
        assumptions: &["interleavings finer than the two schedule points per worker loop are explored only by free-running threads", "mmap writer is only used in normalised mode (it asserts so)", "a record whose header line holds no name (but which has bases) counts as a record and gets its row"],
        abort_is_violation: false,
    },
    PropInfo {
        id: "C13",
        run: c13::run,
        replay: c13::replay,
        shards: (8, 8),
        watchdog: (900, 7200),
        rule: "Hypothesis (python3-vt, seeded from VERIF_SEED, no database) over Python str from three alphabets (nucleotide, mixed case + IUPAC + punctuation, full unicode without surrogates, and nucleotides sprinkled with the raw code points U+0000..U+0003) x parameters in the documented ranges x batch sizes 0..50 (occasionally 2000); \
               differential against the Rust core built from the same tree (vh oracle-server): k-mer and minimiser iterators equal, to_acgt equal, oligo vector within 1e-12 and header equal, CGR equal or ValueError exactly when the core returns Err, batch == list of per-sequence results in order (CGR batch raises iff an element is bad), iterator from a released temporary string followed by gc and 1 MiB of fresh allocations still equals the core; the interpreter must survive (a dead interpreter = violation with the journaled example); \
               non-trivial = non-empty result and (non-ASCII present or batch >= 2 or released-string leg); distinct by hash of the example \
               the eight shards run with different pool sizes (RAYON_NUM_THREADS unset, 1, 2, 3, 5, 7); sequence-file punctuation in every alphabet",
        assumptions: &["scheduling of rayon's global pool inside the extension is only stressed (large batches), not controlled", "U+0000..U+0003 are generated in a dedicated alphabet only: every leg is differential against the core, which defines what they mean"],
        abort_is_violation: false,
    },
    PropInfo {
        id: "C14",
        run: c14::run,
        replay: c14::replay,
        shards: (8, 16),
        watchdog: (600, 7200),
        rule: "mmap writer: records x k 1..=8 x delimiters of length 0..=4 x header x threads x schedule; every (pos,len,cap) logged in MMWriter::write_at must be in bounds, pairwise disjoint and tile [0,cap), cap = file size = header + n x row length, no NUL byte in the file; \
               coverage (bin size/count 1..6 with k-mer multiplicities exactly at, just around and far beyond bin size x bin count), counting (partitions far above the number of distinct k-mers, k up to 31), k-mer CGR and the per-sequence oligo routine are executed in the same journaled child: shards are built with debug assertions so a violated get_unchecked precondition aborts the shard (dead shard = violation, journaled case = replay); \
               non-trivial = mmap: >= 2 records and (delimiter length != 1 or header or threads >= 2); cov: multiplicity >= bin size x bin count - 1 and a valid window; ctr: >= 2 partitions; distinct by hash of the case \
               the mmap leg also runs with a giant record (frequencies rounding up to 1); the coverage kernel also with an unrelated or k-mer-free counting input \
               the mmap leg runs over every container and, in a fifth of the cases, as the second run of one computer object whose input file was rewritten; Python objects whose public data attributes were assigned generated values (child interpreter, debug-assertions build of the module: death by signal = violation) \
               the mmap writer driven by the executable with the thread option left to the program, under generated environments: file size = header + records x row and no NUL byte",
        assumptions: &["an out-of-bounds read through a site without ub_checks is not observable", "the write-log hook panics before an out-of-bounds copy would happen, so the harness process is not corrupted"],
        abort_is_violation: true,
    },
    PropInfo {
        id: "C06",
        run: c06::run,
        replay: c06::replay,
        shards: (8, 16),
        watchdog: (300, 3600),
        rule: "well-formed record lists serialised as FASTA (single-line / wrapped / CRLF / no final newline) or 4-line FASTQ, plain or gzip with 1..=5 members split at arbitrary byte offsets (stored or deflated), \
               read back through SeqFormat::get + get_reader + Sequences and through seq_stats; oracle = the record list itself (round trip); \
               non-trivial = >= 2 records and (wrapped or CRLF or no final newline or an empty record or >= 2 gzip members or a line > 8 KiB); distinct by hash of the case \
               multi-line FASTQ, record starts (or a point inside the header line, or between CR and LF) aligned to block boundaries of the text, nameless records with bases, descriptions containing > @ + \
               gzip members aligned to offsets of the compressed file (8192 j +- 2); the same path read again in this process after a rewrite of the same sizes",
        assumptions: &["only well-formed input: unique ids without white space, one space before the description, no blank lines, FASTQ only when every record has >= 1 base (rust-bio rejects empty FASTQ sequences), ASCII sequence bytes", "multi-line FASTQ (sequence and quality wrapped) counts as well-formed, with quality lines that do not start with @ or +; a record may have an empty name if it has bases (one with neither is the reader's end marker and is not generated)"],
        abort_is_violation: false,
    },
    PropInfo {
        id: "C07",
        run: c07::run,
        replay: c07::replay,
        shards: (8, 16),
        watchdog: (900, 7200),
        rule: "inputs (RecGen, low-complexity weighted, all containers) x k 1..=31 x threads 1..=16 x memory ceiling derived from the input so that the run makes about 1,2,3,5,12,30 chunks (partitions follow) x acgt x schedule (free, perturbed, controlled choice vector over the counting worker's schedule points); \
               kmers.counts parsed and compared as a map with the model multiset of canonical k-mers (no k-mer twice, nothing missing or invented), directory listing after merge(delete) = {kmers.counts}; plus contention stress (identical records, k<=3, 8-16 threads), large inputs (30-200 records of up to 700 bases, k>=11: tens of thousands of distinct k-mers per partition table and chunk file) and bounded-exhaustive schedule enumeration for small inputs; \
               non-trivial = >= 2 chunks and >= 2 partitions and some k-mer with count >= 2; distinct by hash of the case \
               contention on new keys (adjacent duplicate records, k 7..=21); a third of the runs merge 1-40 more times with merge(false), every merge giving the same table",
        assumptions: &["line order of kmers.counts is not compared", "the output directory is created fresh by the harness", "interleavings inside the concurrent map are only stressed, not controlled"],
        abort_is_violation: false,
    },
    PropInfo {
        id: "C08",
        run: c08::run,
        replay: c08::replay,
        shards: (8, 16),
        watchdog: (900, 7200),
        rule: "inputs (RecGen incl. all-empty files and degenerate lengths, all containers) x k 1..=31 x bin size {1..8,16,1000} x bin count {1..8,16} x normalised/raw x optional separate counting input sharing a prefix of the records x threads x memory {input-derived (several counting chunks, flush per record), 0.5, 1, 6 GB} x delimiter; \
               kmers.vectors must have one row per record in input order, each equal to the model histogram built from the model count table (exact raw, 5e-7 normalised); \
               non-trivial = >= 2 records and (a window saturates into the last bin or some record has >= 2 non-zero bins); distinct by hash of the case \
               bin sizes to 5000 and an extra record whose k-mers occur exactly m x bin size (+0, +-1) times; re-run-in-place cases: same directory and same input path, file rewritten with other records of the same byte size (mtime kept in half of the cases), second result against the model of the new content \
               contention on new keys with bin size 1; round-number multiplicities (255 .. 65536 +-1); one CovComputer object through 2-4 rounds of set_kmer_path / build_table / compute_coverages \
               the same check through the executable under generated environments (pool-size variable, 1-3 CPUs available, relative paths, locale)",
        assumptions: &["'flush per few records' needs > 1 GiB of bases per batch and is not generated", "tolerance 5e-7 + 1e-12 for 6-decimal text"],
        abort_is_violation: false,
    },
    PropInfo {
        id: "C09",
        run: c09::run,
        replay: c09::replay,
        shards: (8, 16),
        watchdog: (300, 3600),
        rule: "(a) all strings over {A,C,G,T,N} up to a length bound crossed with a fixed list of small (w,m); (b) random (bytes, w, m) with m<=31, w<=m+60; \
               iterator output (core, and pykmertools.MinimiserGenerator on UTF-8 strings) compared with the model's maximal runs; non-trivial = the model has >= 2 runs, or >= 1 run and a foreign byte; distinct by enumeration / hash of the case \
               plus giant cases: pseudo-random sequences of 66 000 to 400 000 (3 M) bases with w = length, w-m+1 = 65536+-3, w >= 2^16 or small w, through the core iterator and (0.9-4.5 M bases) through Python, oracle = monotone-queue variant of the model cross-checked against the naive one; offsets beyond 2^32 in the thorough tier (shift relation); cold-start cases \
               address alignments; call histories (see C01); equal-length Python temporaries",
        assumptions: &["1 <= m <= w, m <= 31 by construction", "bytes 0x00-0x03 never generated"],
        abort_is_violation: false,
    },
    PropInfo {
        id: "C10",
        run: c10::run,
        replay: c10::replay,
        shards: (8, 16),
        watchdog: (900, 7200),
        rule: "record lists (safe unique ids, 5% with a reused id; all containers; degenerate lengths around m and w) x m 1..=28 x (w = 0 or m < w <= m+40) x threads 1..=16 x schedule (free, perturbed, controlled over both worker loops); \
               s2m lines compared as a multiset with the model's per-record runs, m2s compared per minimiser text with the model's (id,start,end) multisets, and m2s must be the inversion of the actual s2m; plus bounded-exhaustive schedule enumeration for small inputs; \
               non-trivial = >= 3 records, a minimiser text shared by >= 2 records, threads >= 2; distinct by hash of the case \
               a quarter of the runs start with left-over text at both output paths",
        assumptions: &["w = 0 means one window of max(record length, m) bases: a record shorter than m or holding a foreign byte has no run", "ids are restricted so that Rust's Debug rendering in m2s is the identity"],
        abort_is_violation: false,
    },
    PropInfo {
        id: "C11",
        run: c11::run,
        replay: c11::replay,
        shards: (8, 16),
        watchdog: (900, 7200),
        rule: "(1) nucleotide strings (ACGTU either case, low-complexity included) x S in 1..2^20 through the per-sequence routine: every point equals the exact dyadic model (bit-exact while the exact value fits 53 bits, within S*2^-48 beyond), lies in the sub-square fixed by its last min(i,20) bases, and is unchanged when a suffix is appended; \
               (2) strings with one inserted foreign byte must be refused (Err or panic), never Ok; (2') pykmertools.CgrComputer.vectorise_one: exact points for nucleotide strings, ValueError for any string holding another character (incl. non-ASCII); (3) files of nucleotide records x containers x threads x batch limit {1 byte, 3 records, half, 4 GiB}, optionally with one poisoned record: rows per record in order, and on refusal only correct complete rows of records before the offending one; \
               non-trivial = length >= 5 with >= 3 distinct bases (direct) / >= 2 records one of them >= 5 bases (files); distinct by hash of the case \
               every point list is also checked locally: point i = midpoint of the reported point i-1 and the corner within 4 ulp; long low-complexity sequences (8 000 - 70 000 / 1.2 M bases) through the library routine and Python \
               file cases with any printable non-nucleotide character as the offending byte and with hundreds of records per batch \
               left-over output at the output path",
        assumptions: &["a panic counts as 'rejected with an error'", "S >= 1; exactness rule: exact iff the exact value needs <= 53 significant bits"],
        abort_is_violation: false,
    },
    PropInfo {
        id: "C12",
        run: c12::run,
        replay: c12::replay,
        shards: (8, 16),
        watchdog: (900, 7200),
        rule: "records (foreign bytes allowed, degenerate lengths) x containers x k 1..=7 x S x normalised/raw x threads x batch limit: row i has one (x,y,f) per canonical k-mer in rank order, (x,y) = exact chaos-game end point of the k-mer text (identical in every row), f within 1e-9 of the model oligo value and equal (5e-7 / exact) to what comp oligo writes for the same file; \
               non-trivial = >= 2 records and some record with >= 2 non-zero columns; distinct by hash of the case \
               plus the same check through the executable (S in {1, 2, 3, k^2, 2^20, uniform}) and giant records with counts beyond 2^16 and 2^24 \
               record counts beyond 2^16 and 2^17 (amplicon-like inputs, each distinct record verified once, identical records byte for byte); another computer of the same k and another square size alive \
               left-over output at the output path",
        assumptions: &["k-mer end points are exactly representable for k <= 7 and S <= 2^20 (asserted)"],
        abort_is_violation: false,
    },
    PropInfo {
        id: "C15",
        run: c15::run,
        replay: c15::replay,
        shards: (8, 16),
        watchdog: (900, 7200),
        rule: "a generated in-range command (every subcommand, presets, -c/--counts, -H, -t 0..16, -k/-m/-w/-s/-c/-v/-m values, --acgt, --alt-input, stdin) over generated inputs is executed through the built executable and related to a second execution: the library called with the documented meaning of the options (differential), another preset (equal after delimiter replacement), header toggled (exactly one more line), another thread count (same bytes / same line multiset), counts toggled (per-row normalisation within 5e-7), --acgt toggled (same table after decoding), stdin instead of a file, the same command line through the Python package's entry point pykmertools.run_cli (py/entry.py); \
               options are written in a generated spelling (-k 5, --k-size 5, --k-size=5, -k5) and, in a quarter of the cases, options at their documented default are left out; \
               plus a fixed list of values just outside every documented range and a generated leg (a random accepted command in a random spelling with one of k, m, w, bin size, bin count, memory pushed outside its range: below, just above, far above incl. values that wrap into the range when truncated to 8/16/32 bits, beyond u64, negative, non-numeric): diagnostic on stderr, no output location created, no panic; non-trivial = >= 2 records and >= 2 options differing from their defaults; distinct by hash of the case \
               generated option spelling; degenerate tails; relations on top of an earlier result; every result must be NUL-free text \
               executable runs under generated environments, and a relation 'same command, two environments'",
        assumptions: &["exit status of refusals is not constrained (the statement does not; the w <= m refusal exits 0)", "comp cgr is always given an explicit -v (its default size is not documented)"],
        abort_is_violation: false,
    },
    PropInfo {
        id: "C16",
        run: c16::run,
        replay: c16::replay,
        shards: (8, 16),
        watchdog: (900, 7200),
        rule: "degenerate-shape record lists (0 records; lengths 0, 1, k-1, k, k+1, m, w; all-ambiguous; ambiguous first/last; mixtures; FASTA and, when no record is empty, FASTQ; all containers) x every subcommand with accepted options, through the executable (documented ranges) and through the library (k, m from 1; both oligo writers; cov flush modes); \
               validity predicate: exit 0 / no panic / no error, record-oriented outputs have exactly one row per record of the right width, every number finite, every minimiser run at least a window long, free of ambiguous bytes and containing its minimiser (no placeholder), counts > 0 with codes < 4^k; whole-sequence CGR may refuse records with foreign bytes; \
               non-trivial = the input contains a boundary shape relevant to the subcommand's parameter; distinct by hash of the case \
               blocks of 64..4096 identical degenerate records at multiples of the block size (optionally ending the input) and record starts on block boundaries of the text \
               executable runs under generated environments; left-over output at the output location",
        assumptions: &["an executable run exceeding 120 s is reported as inconclusive, not as a violation"],
        abort_is_violation: false,
    },
    PropInfo {
        id: "C17",
        run: c17::run,
        replay: c17::replay,
        shards: (8, 16),
        watchdog: (900, 7200),
        rule: "histories of 2-3 runs (any subcommands writing the same kind of location, different inputs, k, threads; library runs of ctr/cov with input-derived memory ceilings and merge(false) so that stale temp_kmers.* of more chunks/partitions remain; 15% repeat the same command) sharing one output path or directory; \
               the result files after the last run must equal those of the same run in a fresh location (bytes for ordered outputs, sorted lines for counts tables and minimiser listings); \
               non-trivial = the earlier run left a longer result or stale temp files; distinct by hash of the case \
               steps read one of two input paths; a file is only rewritten when its content changes (optionally keeping its mtime); shapes: same command twice, X-Y-X with X's file untouched, input rewritten in place with the same byte size \
               the reference run uses its own copies of the input files; degenerate last steps; rewrite-in-place with another record count of the same byte size, optionally with both runs inside one process",
        assumptions: &["a history whose step fails is skipped (clean termination is C16's subject)", "file-based and directory-based subcommands are not mixed in one history"],
        abort_is_violation: false,
    },
    PropInfo {
        id: "C18",
        run: c18::run,
        replay: c18::replay,
        shards: (8, 16),
        watchdog: (300, 3600),
        rule: "same generators as C09 with w <= 31; runs compared with the plain iterator (differential) and the concatenated k-mer lists with the model's canonical w-mers; \
               non-trivial = (>= 2 runs or a foreign byte with >= 1 run) and >= 1 w-mer; distinct by enumeration / hash of the case \
               plus giant sequences (66 000 - 400 000 / 3 M bases), a differential leg with raw bytes 0x00-0x03 (runs equal to the plain iterator's, as many w-mers as windows in the runs), offsets beyond 2^32 in the thorough tier, cold-start cases \
               address alignments; call histories (see C01)",
        assumptions: &["1 <= m <= w <= 31 by construction"],
        abort_is_violation: false,
    }]
}

pub fn find(id: &str) -> Option<PropInfo> {
    all().into_iter().find(|p| p.id == id)
}

/// executable runs stopped by the per-run watchdog make the check inconclusive (exit 2), never a violation
pub fn timeouts_inconclusive(ctx: &mut Ctx) {
    if let Some(n) = ctx.out.classes.get("cli-timeout").copied() {
        if n > 0 {
            ctx.out.inconclusive.push(format!("{} executable runs exceeded the per-run watchdog", n));
        }
    }
}

pub fn oracle_server() {
    c13::oracle_server()
}
