pub mod c01;
pub mod c02;
pub mod c03;
pub mod c09;
pub mod c18;

use crate::engine::{Ctx, Verdict};
use serde_json::Value;

pub struct PropInfo {
    pub id: &'static str,
    pub run: fn(&mut Ctx),
    pub replay: fn(&str, &Value) -> Option<Result<Verdict, String>>,
    /// shards (quick, thorough)
    pub shards: (usize, usize),
    /// watchdog seconds per shard (quick, thorough)
    pub watchdog: (u64, u64),
    pub rule: &'static str,
    pub assumptions: &'static [&'static str],
    /// a dead shard (abort / SIGSEGV) is a violation of this property
    pub abort_is_violation: bool,
}

pub fn all() -> Vec<PropInfo> {
    vec![PropInfo {
        id: "C01",
        run: c01::run,
        replay: c01::replay,
        shards: (8, 16),
        watchdog: (300, 3600),
        rule: "cases (seq, k) drawn by SeqGen x k in 1..=31 and compared with the naive window-scan model; \
               non-trivial = at least one window is emitted and (a foreign byte is present or k >= 16 or a lower-case/U base); \
               distinct by hash of (seq, k)",
        assumptions: &["bytes 0x00-0x03 are never generated (left unspecified by the property)", "k outside 1..=31 never generated"],
        abort_is_violation: false,
    },
    PropInfo {
        id: "C02",
        run: c02::run,
        replay: c02::replay,
        shards: (8, 16),
        watchdog: (300, 3600),
        rule: "(a) every code x < 4^k enumerated for small k and sampled (uniform, extremes, palindromes, single-bit patterns, top digit set) for k up to 31: \
               involution, agreement with text-level reverse complement, decode/encode round trip; non-trivial = x not in {0, 4^k-1}. \
               (b) sequences x k: each pair's second component is the reverse complement of the first, the stream of the reverse-complemented text is the mirrored stream, \
               canonical multisets agree; non-trivial = at least 2 windows and seq != its reverse complement; distinct by hash of the case",
        assumptions: &["codes >= 4^k are never passed (unspecified)", "reverse complement of a foreign byte is itself; U complements to A"],
        abort_is_violation: false,
    },
    PropInfo {
        id: "C03",
        run: c03::run,
        replay: c03::replay,
        shards: (4, 8),
        watchdog: (300, 3600),
        rule: "one evaluation = one (k, code) pair of the exhaustive enumeration of all 4^k codes (plus one structural check per k and one per header source); \
               non-trivial = the code is canonical (its column is specified); entries of the k-mer->index vector at non-canonical codes are not inspected; distinct by (k, code)",
        assumptions: &["header via the executable is checked for k in 3..=7 (the range the CLI accepts) and all three presets, in normalised and counts mode"],
        abort_is_violation: false,
    },
    PropInfo {
        id: "C09",
        run: c09::run,
        replay: c09::replay,
        shards: (8, 16),
        watchdog: (300, 3600),
        rule: "(a) all strings over {A,C,G,T,N} up to a length bound crossed with a fixed list of small (w,m); (b) random (bytes, w, m) with m<=31, w<=m+60; \
               iterator output compared with the model's maximal runs; non-trivial = the model has >= 2 runs, or >= 1 run and a foreign byte; distinct by enumeration / hash of the case",
        assumptions: &["1 <= m <= w, m <= 31 by construction", "bytes 0x00-0x03 never generated"],
        abort_is_violation: false,
    },
    PropInfo {
        id: "C18",
        run: c18::run,
        replay: c18::replay,
        shards: (8, 16),
        watchdog: (300, 3600),
        rule: "same generators as C09 with w <= 31; runs compared with the plain iterator (differential) and the concatenated k-mer lists with the model's canonical w-mers; \
               non-trivial = (>= 2 runs or a foreign byte with >= 1 run) and >= 1 w-mer; distinct by enumeration / hash of the case",
        assumptions: &["1 <= m <= w <= 31 by construction"],
        abort_is_violation: false,
    }]
}

pub fn find(id: &str) -> Option<PropInfo> {
    all().into_iter().find(|p| p.id == id)
}

pub fn oracle_server() {
    eprintln!("oracle-server not built yet");
    std::process::exit(2);
}

pub fn corpus(_target: &str, _dir: &str) {
    eprintln!("corpus not built yet");
    std::process::exit(2);
}
