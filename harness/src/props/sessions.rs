//! Histories of API calls on ONE thread: several iterators alive at the same time and advanced in a
//! generated interleaving, iterators dropped before they are exhausted and new ones created afterwards,
//! long runs of table constructions for changing k. Per-thread caches, recycled buffers and "remembered
//! last result" shortcuts only misbehave under such histories; a case that builds one object, runs it to
//! the end and drops it can never see them. Every history runs in a fresh thread (so that it is
//! self-contained and replays exactly); the oracle is the reference model, item by item.
use crate::engine::Verdict;
use crate::model;
use crate::util::Bytes;
use kmer::kmer::KmerGenerator;
use kmer::kmer_minimisers::KmerMinimiserGenerator;
use kmer::minimiser::MinimiserGenerator;
use proptest::prelude::*;
use serde::{Deserialize, Serialize};

#[derive(Clone, Debug, Serialize, Deserialize)]
pub enum Spec {
    Kmer { seq: Bytes, k: usize },
    Min { seq: Bytes, w: usize, m: usize },
    KMin { seq: Bytes, w: usize, m: usize },
}

#[derive(Clone, Debug, Serialize, Deserialize)]
pub enum Op {
    /// (re)create the iterator of this slot from this specification; an iterator already in the slot is
    /// dropped wherever it stands
    New(u8, u8),
    /// pull up to n items from the iterator in the slot
    Step(u8, u16),
    /// consume the rest of the iterator in the slot through another method of the Iterator trait
    /// (0 count, 1 last, 2 fold, 3 for_each, 4 collect, 5 nth(n) and keep it, 6 skip(n) + collect,
    /// 7 by_ref().take(n) + count and keep it); an iterator type may override any of them
    Drain(u8, u8, u8),
}

#[derive(Clone, Debug, Serialize, Deserialize)]
pub struct Session {
    pub specs: Vec<Spec>,
    pub ops: Vec<Op>,
}

type Item = Vec<u64>;

fn expected(s: &Spec) -> Vec<Item> {
    match s {
        Spec::Kmer { seq, k } => model::windows(&seq.0, *k).iter().map(|w| vec![w.1, w.2]).collect(),
        Spec::Min { seq, w, m } => model::minimiser_runs(&seq.0, *w, *m).iter().map(|r| vec![r.0, r.1 as u64, r.2 as u64]).collect(),
        // the property fixes the runs and the concatenation of the lists, not which run carries which w-mer:
        // items are compared on (minimiser, start, end); the lists are checked as a growing prefix (below)
        Spec::KMin { seq, w, m } => model::minimiser_runs(&seq.0, *w, *m).iter().map(|r| vec![r.0, r.1 as u64, r.2 as u64]).collect(),
    }
}

/// the concrete iterator types (not `Box<dyn Iterator>`: a boxed trait object would route `fold`, `count`,
/// `last`, ... through `next()` and hide an iterator's own versions of them)
enum AnyIt<'a> {
    K(KmerGenerator<'a>),
    M(MinimiserGenerator<'a>),
    KM(KmerMinimiserGenerator<'a>),
}

fn item_k(x: (u64, u64)) -> Item {
    vec![x.0, x.1]
}
fn item_m(x: (u64, usize, usize)) -> Item {
    vec![x.0, x.1 as u64, x.2 as u64]
}
fn item_km(x: (u64, usize, usize, Vec<u64>)) -> Item {
    let mut it = vec![x.0, x.1 as u64, x.2 as u64];
    it.extend(x.3);
    it
}

/// run `$body` with `$it` bound to the concrete iterator mapped to items
macro_rules! with_it {
    ($any:expr, $it:ident => $body:expr) => {
        match $any {
            AnyIt::K(g) => {
                let $it = g.map(item_k);
                $body
            }
            AnyIt::M(g) => {
                let $it = g.map(item_m);
                $body
            }
            AnyIt::KM(g) => {
                let $it = g.map(item_km);
                $body
            }
        }
    };
}

impl<'a> AnyIt<'a> {
    fn next_item(&mut self) -> Option<Item> {
        match self {
            AnyIt::K(g) => g.next().map(item_k),
            AnyIt::M(g) => g.next().map(item_m),
            AnyIt::KM(g) => g.next().map(item_km),
        }
    }
    fn nth_item(&mut self, n: usize) -> Option<Item> {
        match self {
            AnyIt::K(g) => g.nth(n).map(item_k),
            AnyIt::M(g) => g.nth(n).map(item_m),
            AnyIt::KM(g) => g.nth(n).map(item_km),
        }
    }
    fn take_count(&mut self, n: usize) -> usize {
        match self {
            AnyIt::K(g) => g.by_ref().take(n).count(),
            AnyIt::M(g) => g.by_ref().take(n).count(),
            AnyIt::KM(g) => g.by_ref().take(n).count(),
        }
    }
}

fn make<'a>(s: &'a Spec) -> AnyIt<'a> {
    match s {
        Spec::Kmer { seq, k } => AnyIt::K(KmerGenerator::new(&seq.0, *k)),
        Spec::Min { seq, w, m } => AnyIt::M(MinimiserGenerator::new(&seq.0, *w, *m)),
        Spec::KMin { seq, w, m } => AnyIt::KM(KmerMinimiserGenerator::new(&seq.0, *w, *m)),
    }
}

/// Err(message) = some iterator of the history produced something else than the model's items
fn run_session(c: &Session) -> Result<(usize, usize), String> {
    const SLOTS: usize = 4;
    let mut want: Vec<Vec<Item>> = c.specs.iter().map(expected).collect();
    // the k-mer reporting iterator: the property fixes the runs and the concatenation of the lists. A fresh
    // object pulled with next() only is judged against that; its items (lists included) are then what every
    // other way of pulling the same iterator has to deliver (nth, skip, fold, last ... are defined by the
    // Iterator trait as repeated next())
    for (sp, s) in c.specs.iter().enumerate() {
        if let Spec::KMin { seq, w, .. } = s {
            let mut it = make(s);
            let mut full: Vec<Item> = Vec::new();
            while let Some(x) = it.next_item() {
                full.push(x);
                if full.len() > seq.0.len() + 2 {
                    return Err(format!("the iterator built from {} yields more items than the input has bytes", crate::util::trunc(&format!("{:?}", s), 160)));
                }
            }
            let heads: Vec<Item> = full.iter().map(|x| x[..3.min(x.len())].to_vec()).collect();
            if heads != want[sp] {
                let p = heads.iter().zip(want[sp].iter()).position(|(a, b)| a != b).unwrap_or(heads.len().min(want[sp].len()));
                return Err(format!("a fresh iterator built from {} pulled with next(): run {} is {:?}, the model has {:?} ({} runs vs {})", crate::util::trunc(&format!("{:?}", s), 160), p, heads.get(p), want[sp].get(p), heads.len(), want[sp].len()));
            }
            let cat: Vec<u64> = full.iter().flat_map(|x| x[3.min(x.len())..].iter().copied()).collect();
            let stream = model::canonical_stream(&seq.0, *w);
            if cat != stream {
                return Err(format!("a fresh iterator built from {} pulled with next(): the concatenated k-mer lists have {} items, the input has {} canonical w-mers (or they differ)", crate::util::trunc(&format!("{:?}", s), 160), cat.len(), stream.len()));
            }
            want[sp] = full;
        }
    }
    let mut slots: Vec<Option<(usize, usize, AnyIt<'_>)>> = (0..SLOTS).map(|_| None).collect();
    let (mut early_drops, mut interleaved) = (0usize, 0usize);
    for (i, op) in c.ops.iter().enumerate() {
        match op {
            Op::New(slot, spec) => {
                let (slot, spec) = (*slot as usize % SLOTS, *spec as usize % c.specs.len().max(1));
                if c.specs.is_empty() {
                    continue;
                }
                if let Some((sp, pos, _)) = &slots[slot] {
                    if *pos < want[*sp].len() {
                        early_drops += 1;
                    }
                }
                slots[slot] = None; // drop first, then build: the order a `x = new()` assignment cannot give
                slots[slot] = Some((spec, 0, make(&c.specs[spec])));
            }
            Op::Drain(slot, how, n) => {
                let slot = *slot as usize % SLOTS;
                let n = *n as usize % 7;
                if let Some((sp, pos, mut it)) = slots[slot].take() {
                    let rest: Vec<Item> = want[sp][pos.min(want[sp].len())..].to_vec();
                    let head = |x: &Item| x.clone();
                    let fail = |what: String| Err(format!("operation {} ({:?}) on the iterator built from {} after {} items taken with next(): {}", i, op, crate::util::trunc(&format!("{:?}", c.specs[sp]), 160), pos, what));
                    match how % 8 {
                        0 => {
                            let got = with_it!(it, x => x.count());
                            if got != rest.len() {
                                return fail(format!("count() = {}, {} items remain in the model", got, rest.len()));
                            }
                        }
                        1 => {
                            let got = with_it!(it, x => x.last()).map(|x| head(&x));
                            if got != rest.last().cloned() {
                                return fail(format!("last() = {:?}, the model's last item is {:?}", got, rest.last()));
                            }
                        }
                        2 | 3 | 4 | 6 => {
                            let skip = if how % 8 == 6 { n } else { 0 };
                            let got: Vec<Item> = match how % 8 {
                                2 => with_it!(it, x => x.fold(Vec::new(), |mut acc: Vec<Item>, y| { acc.push(head(&y)); acc })),
                                3 => { let mut acc = Vec::new(); with_it!(it, x => x.for_each(|y| acc.push(head(&y)))); acc }
                                4 => with_it!(it, x => x.collect::<Vec<Item>>()).iter().map(|y| head(y)).collect(),
                                _ => with_it!(it, x => x.skip(skip).collect::<Vec<Item>>()).iter().map(|y| head(y)).collect(),
                            };
                            let exp: Vec<Item> = rest.iter().skip(skip).cloned().collect();
                            if got != exp {
                                let p = got.iter().zip(exp.iter()).position(|(a, b)| a != b).unwrap_or(got.len().min(exp.len()));
                                return fail(format!("the rest taken by {} has {} items, the model {}; first difference at {}: {:?} vs {:?}", ["", "", "fold", "for_each", "collect", "", "skip + collect"][(how % 8) as usize], got.len(), exp.len(), p, got.get(p), exp.get(p)));
                            }
                        }
                        5 => {
                            let got = it.nth_item(n).map(|x| head(&x));
                            if got != rest.get(n).cloned() {
                                return fail(format!("nth({}) = {:?}, the model has {:?}", n, got, rest.get(n)));
                            }
                            // the iterator stays in its slot
                            if got.is_some() {
                                slots[slot] = Some((sp, pos + n + 1, it));
                            }
                        }
                        _ => {
                            let got = it.take_count(n);
                            if got != n.min(rest.len()) {
                                return fail(format!("by_ref().take({}).count() = {}, the model has {} items left", n, got, rest.len()));
                            }
                            slots[slot] = Some((sp, pos + got, it));
                        }
                    }
                }
            }
            Op::Step(slot, n) => {
                let slot = *slot as usize % SLOTS;
                if slots.iter().filter(|s| s.is_some()).count() >= 2 {
                    interleaved += 1;
                }
                if let Some((sp, pos, it)) = &mut slots[slot] {
                    for _ in 0..*n {
                        let got = it.next_item();
                        let exp = want[*sp].get(*pos);
                        if got.as_ref() != exp {
                            return Err(format!(
                                "operation {} ({:?}): item {} of the iterator built from {} is {:?}, the model has {:?}",
                                i,
                                op,
                                pos,
                                crate::util::trunc(&format!("{:?}", c.specs[*sp]), 160),
                                got.map(|g| crate::util::trunc(&format!("{:?}", g), 120)),
                                exp.map(|g| crate::util::trunc(&format!("{:?}", g), 120))
                            ));
                        }
                        if got.is_none() {
                            break;
                        }
                        *pos += 1;
                    }
                }
            }
        }
    }
    Ok((early_drops, interleaved))
}

pub fn check(c: &Session) -> Verdict {
    let mut v = Verdict::new();
    v.class("session");
    let c2 = c.clone();
    let r = std::thread::spawn(move || crate::engine::guarded(|| run_session(&c2))).join();
    match r {
        Ok(Ok(Ok((early, inter)))) => {
            v.class_if(early > 0, "iterator-dropped-before-its-end");
            v.class_if(inter > 0, "iterators-interleaved");
            v.nontrivial = early > 0 || inter > 0;
        }
        Ok(Ok(Err(m))) => v.fail("history-changes-result", m),
        Ok(Err(p)) => v.fail(crate::engine::panic_sig(&p), format!("a history of iterator calls panicked: {}", p)),
        Err(_) => v.fail("history-thread-died", "the thread executing the history died"),
    }
    v
}

/// sessions over the given kinds of iterator (0 = k-mer, 1 = minimiser, 2 = minimiser with k-mers)
pub fn strategy(kinds: &'static [u8]) -> BoxedStrategy<Session> {
    let spec = prop::sample::select(kinds.to_vec())
        .prop_flat_map(|kind| {
            let max_w = if kind == 2 { 31 } else { 60 };
            (crate::gen::wm_strategy(31, max_w), Just(kind))
        })
        .prop_flat_map(|((w, m), kind)| {
            let scale = if kind == 0 { m } else { w };
            crate::gen::seq(scale, 160, false).prop_map(move |seq| match kind {
                0 => Spec::Kmer { seq: Bytes(seq), k: m },
                1 => Spec::Min { seq: Bytes(seq), w, m },
                _ => Spec::KMin { seq: Bytes(seq), w, m },
            })
        });
    let op = prop_oneof![
        2 => (0u8..4, any::<u8>()).prop_map(|(s, sp)| Op::New(s, sp)),
        5 => (0u8..4, prop_oneof![3 => 1u16..=3, 2 => 1u16..=40, 1 => Just(1000u16)]).prop_map(|(s, n)| Op::Step(s, n)),
        2 => (0u8..4, 0u8..8, 0u8..7).prop_map(|(s, h, n)| Op::Drain(s, h, n)),
    ];
    (proptest::collection::vec(spec, 1..=4), proptest::collection::vec(op, 2..=40))
        .prop_map(|(specs, mut ops)| {
            // every slot that is stepped has been created before: start with one iterator per slot
            let mut pre: Vec<Op> = (0u8..4).map(|s| Op::New(s, s)).collect();
            pre.append(&mut ops);
            Session { specs, ops: pre }
        })
        .boxed()
}

// ---------------------------------------------------------------------------------------------
// long histories of rank-table constructions on one thread

#[derive(Clone, Debug, Serialize, Deserialize)]
pub struct TableHistory {
    /// (k, how many consecutive calls)
    pub runs: Vec<(usize, u16)>,
}

pub fn table_history_strategy() -> BoxedStrategy<TableHistory> {
    let k = prop_oneof![5 => 1usize..=4, 2 => 5usize..=6, 1 => Just(7usize)];
    let n = prop_oneof![4 => 1u16..=4, 2 => 250u16..=260, 1 => 1u16..=300, 1 => 505u16..=520];
    proptest::collection::vec((k, n), 1..=8)
        .prop_map(|mut runs| {
            // keep a history below ~1200 calls
            let mut total = 0u32;
            for r in runs.iter_mut() {
                // long runs use small tables (a k = 7 table costs a 16384-entry hash set per call)
                if r.1 > 8 {
                    r.0 = r.0.min(4);
                }
                if total + r.1 as u32 > 1200 {
                    r.1 = (1200u32.saturating_sub(total)).max(1) as u16;
                }
                total += r.1 as u32;
            }
            TableHistory { runs }
        })
        .boxed()
}

pub fn check_table_history(c: &TableHistory) -> Verdict {
    let mut v = Verdict::new();
    v.class("table-history");
    let total: u32 = c.runs.iter().map(|r| r.1 as u32).sum();
    v.class_if(total >= 256, "table-history>=256-calls");
    v.class_if(total >= 512, "table-history>=512-calls");
    v.nontrivial = c.runs.len() >= 2;
    let c2 = c.clone();
    let r = std::thread::spawn(move || {
        crate::engine::guarded(|| -> Result<(), String> {
            let mut canon: std::collections::HashMap<usize, Vec<u64>> = Default::default();
            let mut call = 0u32;
            for &(k, n) in &c2.runs {
                let want = canon.entry(k).or_insert_with(|| (0..model::pow4(k)).filter(|&x| x <= model::rc_code(x, k)).collect()).clone();
                for _ in 0..n {
                    call += 1;
                    let (fwd, inv, count) = KmerGenerator::kmer_pos_maps(k);
                    if count != want.len() || inv.len() != want.len() || fwd.len() as u64 != model::pow4(k) {
                        return Err(format!("call {} (k={}): count {} / inverse {} / table {} entries, expected {} / {} / {}", call, k, count, inv.len(), fwd.len(), want.len(), want.len(), model::pow4(k)));
                    }
                    for (rank, &code) in want.iter().enumerate() {
                        if fwd[code as usize] != rank || inv.get(&rank) != Some(&code) {
                            return Err(format!("call {} (k={}): canonical k-mer {} has rank {} but the tables say {} / {:?}", call, k, code, rank, fwd[code as usize], inv.get(&rank)));
                        }
                    }
                }
            }
            Ok(())
        })
    })
    .join();
    match r {
        Ok(Ok(Ok(()))) => {}
        Ok(Ok(Err(m))) => v.fail("history-changes-table", m),
        Ok(Err(p)) => v.fail(crate::engine::panic_sig(&p), format!("a history of table constructions panicked: {}", p)),
        Err(_) => v.fail("history-thread-died", "the thread executing the history died"),
    }
    v
}
