//! C09 — minimiser iterator emits exactly the maximal runs of same-minimiser windows.
//! C18 shares the enumerator and the generators (see c18.rs).
use crate::engine::{Ctx, Leg, Tier, Verdict};
use crate::util::Bytes;
use crate::{gen, model};
use kmer::minimiser::MinimiserGenerator;
use proptest::prelude::*;
use serde::{Deserialize, Serialize};

#[derive(Clone, Debug, Serialize, Deserialize)]
pub struct Case {
    pub seq: Bytes,
    pub w: usize,
    pub m: usize,
    /// the sequence is repeated to at least this many bytes (0 = as it is): runs and positions beyond 2^16
    #[serde(default)]
    pub min_len: usize,
}

impl Case {
    pub fn full(&self) -> Vec<u8> {
        super::c01::stretched(&self.seq, self.min_len)
    }
}

pub const SMALL_WM: &[(usize, usize)] = &[(2, 2), (3, 1), (3, 2), (4, 2), (5, 3), (6, 2), (1, 1), (3, 3), (4, 1)];

pub fn classify(v: &mut Verdict, seq: &[u8], w: usize, m: usize, want: &[(u64, usize, usize)]) {
    let foreign = seq.iter().filter(|&&b| !model::is_base(b)).count();
    v.nontrivial = want.len() >= 2 || (want.len() == 1 && foreign > 0);
    v.class_if(w == m, "w=m");
    v.class_if(m >= 28, "m>=28");
    v.class_if(foreign >= 2, "multi-foreign");
    v.class_if(seq.len() < w, "len<w");
    if let Some(last) = want.last() {
        // minimiser changes exactly at the last base: the last run consists of one window
        v.class_if(last.2 - last.1 == w && want.len() >= 2 && last.2 == seq.len() && want[want.len() - 2].2 + 1 == last.2, "change-at-last-base");
    }
    // a clean stretch shorter than w exists
    let mut run = 0;
    let mut short = false;
    for (i, &b) in seq.iter().enumerate() {
        if model::is_base(b) {
            run += 1;
        }
        if !model::is_base(b) || i + 1 == seq.len() {
            if run > 0 && run < w {
                short = true;
            }
            if !model::is_base(b) {
                run = 0;
            }
        }
    }
    v.class_if(short, "segment<w");
    // tie: some window holds its minimum value at two positions
    if want.len() > 0 && w > m {
        let canon: Vec<Option<u64>> = (0..seq.len().saturating_sub(m - 1))
            .map(|p| {
                let t = &seq[p..p + m];
                model::encode(t).map(|f| f.min(model::encode(&model::revcomp_text(t)).unwrap()))
            })
            .collect();
        let mut tie = false;
        'o: for r in want {
            for s in r.1..=(r.2 - w) {
                let c = (0..=(w - m)).filter(|&j| canon[s + j] == Some(r.0)).count();
                if c >= 2 {
                    tie = true;
                    break 'o;
                }
            }
        }
        v.class_if(tie, "tie");
    }
}

pub fn compare(v: &mut Verdict, got: &[(u64, usize, usize)], want: &[(u64, usize, usize)], w: usize, m: usize) {
    if got == want {
        return;
    }
    if got.iter().any(|g| g.0 == u64::MAX) {
        v.fail(
            "placeholder-emitted",
            format!("the placeholder value u64::MAX was emitted as a minimiser: got {:?}, model {:?} (w={}, m={})", got, want, w, m),
        );
    } else if !want.is_empty() && got == &want[..want.len() - 1] {
        v.fail(
            "last-run-missing",
            format!("the last run {:?} is missing: got {:?}, model {:?} (w={}, m={})", want.last().unwrap(), got, want, w, m),
        );
    } else {
        v.fail("runs-differ", format!("got {:?}, model {:?} (w={}, m={})", got, want, w, m));
    }
}

pub fn check_case(seq: &[u8], w: usize, m: usize) -> Verdict {
    let mut v = Verdict::new();
    let want = model::minimiser_runs(seq, w, m);
    classify(&mut v, seq, w, m, &want);
    let got: Vec<(u64, usize, usize)> = MinimiserGenerator::new(seq, w, m).collect();
    compare(&mut v, &got, &want, w, m);
    v
}

pub struct Random;
impl Leg for Random {
    type Case = Case;
    const NAME: &'static str = "random";
    fn strategy(tier: Tier) -> BoxedStrategy<Case> {
        strategy(tier, 31, 91)
    }
    fn check(c: &Case) -> Verdict {
        let seq = c.full();
        let mut v = check_case(&seq, c.w, c.m);
        v.class_if(seq.len() > 65536, "len>65536");
        if v.fail.is_none() && seq.len() <= 4096 {
            let base: Vec<(u64, usize, usize)> = MinimiserGenerator::new(&seq, c.w, c.m).collect();
            for t in 0..16 {
                let a = crate::util::Aligned::new(&seq, t);
                let g: Vec<(u64, usize, usize)> = MinimiserGenerator::new(a.get(), c.w, c.m).collect();
                if g != base {
                    v.fail("depends-on-address-alignment", format!("with the first byte at an address = {} mod 16: {:?}, otherwise {:?} (w={}, m={})", t, g, base, c.w, c.m));
                    break;
                }
            }
        }
        v
    }
}

pub fn strategy(tier: Tier, max_m: usize, max_w: usize) -> BoxedStrategy<Case> {
    let max = tier.pick(400, 3000);
    gen::wm_strategy(max_m, max_w)
        .prop_flat_map(move |(w, m)| (gen::seq(w, max, false), Just(w), Just(m), prop_oneof![400 => Just(0usize), 2 => Just(5_000usize), 1 => Just(70_000usize)]))
        .prop_map(|(seq, w, m, min_len)| Case { seq: Bytes(seq), w, m, min_len })
        .boxed()
}

/// all strings over {A,C,G,T,N} of length 0..=maxlen (this shard's part), crossed with SMALL_WM
pub fn small_cases(maxlen: usize, shard: usize, nshards: usize, wm_max_w: usize) -> impl Iterator<Item = Case> {
    const AL: &[u8] = b"ACGTN";
    (0..=maxlen).flat_map(move |len| {
        let total = 5u64.pow(len as u32);
        ((shard as u64..total).step_by(nshards)).flat_map(move |mut idx| {
            let mut s = vec![0u8; len];
            for i in (0..len).rev() {
                s[i] = AL[(idx % 5) as usize];
                idx /= 5;
            }
            SMALL_WM
                .iter()
                .filter(move |(w, _)| *w <= wm_max_w)
                .map(move |&(w, m)| Case { seq: Bytes(s.clone()), w, m, min_len: 0 })
        })
    })
}

/// the Python iterator (pykmertools.MinimiserGenerator) against the model
pub struct Python;
impl Leg for Python {
    type Case = Case;
    const NAME: &'static str = "python";
    fn strategy(tier: Tier) -> BoxedStrategy<Case> {
        Random::strategy(tier)
    }
    fn check(c: &Case) -> Verdict {
        let mut v = Verdict::new();
        let seq = super::c01::utf8_safe(&c.full());
        let want = model::minimiser_runs(&seq, c.w, c.m);
        classify(&mut v, &seq, c.w, c.m, &want);
        v.class("python");
        match crate::pyworker::ask(&serde_json::json!({"op": "mins", "w": c.w, "m": c.m, "seq": crate::pyworker::hex(&seq)})).and_then(|r| super::c01::parse_tuples_u64(&r, 3)) {
            Err(e) => crate::pyworker::record_error(&mut v, e),
            Ok(got) => {
                let got: Vec<(u64, usize, usize)> = got.iter().map(|t| (t[0], t[1] as usize, t[2] as usize)).collect();
                let mut vv = Verdict::new();
                compare(&mut vv, &got, &want, c.w, c.m);
                if let Some(f) = vv.fail {
                    v.fail(format!("python-{}", f.sig), format!("pykmertools.MinimiserGenerator: {}", f.msg));
                }
            }
        }
        v
    }
}

// ---------------------------------------------------------------------------------------------
// giant sequences and giant windows: whole-record windows (w = length, as `min -w 0` uses them), windows
// whose ring of m-mers has 65536 +- a few slots, sequences beyond 2^20 bases, offsets shifted by long
// runs of ambiguous bytes. Oracle: model::minimiser_runs_fast (cross-checked against the naive model).

#[derive(Clone, Copy, Debug, Serialize, Deserialize, PartialEq)]
pub enum WMode {
    /// one window spanning the whole sequence
    Whole,
    /// w - m + 1 = 65536 + delta
    Ring(i32),
    /// as given (capped to the length)
    Fixed(usize),
    /// m + d, a small window on a giant sequence
    Small(usize),
}

#[derive(Clone, Debug, Serialize, Deserialize)]
pub struct GiantCase {
    pub giant: gen::Giant,
    pub wmode: WMode,
    pub m: usize,
    /// this many ambiguous bytes are put in front (all offsets shift by as much)
    #[serde(default)]
    pub lead_gap: usize,
}

impl GiantCase {
    pub fn seq(&self) -> Vec<u8> {
        let mut s = vec![b'N'; self.lead_gap];
        s.extend(self.giant.expand());
        s
    }
    pub fn w(&self, len: usize) -> usize {
        let w = match self.wmode {
            WMode::Whole => len,
            WMode::Ring(d) => (65536 + d as i64 + self.m as i64 - 1) as usize,
            WMode::Fixed(w) => w,
            WMode::Small(d) => self.m + d,
        };
        w.max(self.m)
    }
}

fn giant_case_strategy(lo: usize, hi: usize, python: bool) -> BoxedStrategy<GiantCase> {
    let wmode = if python {
        prop_oneof![4 => (0usize..=60).prop_map(WMode::Small), 1 => Just(WMode::Whole)].boxed()
    } else {
        prop_oneof![
            2 => Just(WMode::Whole),
            4 => (-3i32..=3).prop_map(WMode::Ring),
            1 => prop::sample::select(vec![1usize << 16, (1 << 16) + 1, 1 << 17, 100_000]).prop_map(WMode::Fixed),
            2 => (0usize..=60).prop_map(WMode::Small),
        ]
        .boxed()
    };
    (wmode, prop_oneof![1 => 4usize..=7, 4 => 8usize..=31])
        .prop_flat_map(move |(wmode, m)| {
            // a small window on a periodic text is fine; giant windows get pseudo-random text (a rescan of a
            // 65536-slot ring on every step of a tie-rich text would take minutes)
            let g = match wmode {
                WMode::Small(_) => prop_oneof![1 => gen::giant(lo, hi, b"ACGTN".to_vec()), 1 => gen::giant_random(lo, hi, b"ACGTNn".to_vec())].boxed(),
                _ => gen::giant_random(lo, hi, b"ACGTN".to_vec()).boxed(),
            };
            let g = if python { gen::giant(lo, hi, b"ACGTN".to_vec()).prop_filter_map("period long enough", |g| if g.unit.0.len() >= 40 { Some(g) } else { None }).boxed() } else { g };
            (g, Just(wmode), Just(m), prop_oneof![3 => Just(0usize), 1 => 1usize..=70])
        })
        .prop_map(|(giant, wmode, m, lead_gap)| GiantCase { giant, wmode, m, lead_gap })
        .boxed()
}

fn classify_giant(v: &mut Verdict, c: &GiantCase, len: usize, w: usize, want: &[(u64, usize, usize)]) {
    v.class(c.giant.label());
    v.class(match c.wmode { WMode::Whole => "window=whole-sequence", WMode::Ring(_) => "ring-of-65536+-3", WMode::Fixed(_) => "window>=2^16", WMode::Small(_) => "small-window-on-giant" });
    v.class_if(len > (1 << 20), "len>2^20");
    v.class_if(w > len, "w>len");
    v.nontrivial = !want.is_empty();
}

pub struct GiantLib;
impl Leg for GiantLib {
    type Case = GiantCase;
    const NAME: &'static str = "giant-windows";
    fn strategy(tier: Tier) -> BoxedStrategy<GiantCase> {
        giant_case_strategy(66_000, tier.pick(400_000, 3_000_000), false)
    }
    fn check(c: &GiantCase) -> Verdict {
        let mut v = Verdict::new();
        let seq = c.seq();
        let w = c.w(seq.len());
        let want = model::minimiser_runs_fast(&seq, w, c.m);
        classify_giant(&mut v, c, seq.len(), w, &want);
        let got: Vec<(u64, usize, usize)> = MinimiserGenerator::new(&seq, w, c.m).collect();
        compare_big(&mut v, &got, &want, w, c.m);
        v
    }
}

/// like `compare`, but the message names only the first difference (the lists have thousands of runs)
pub fn compare_big(v: &mut Verdict, got: &[(u64, usize, usize)], want: &[(u64, usize, usize)], w: usize, m: usize) {
    if got == want {
        return;
    }
    let p = got.iter().zip(want.iter()).position(|(a, b)| a != b).unwrap_or(got.len().min(want.len()));
    let sig = if got.iter().any(|g| g.0 == u64::MAX) { "placeholder-emitted" } else if !want.is_empty() && got == &want[..want.len() - 1] { "last-run-missing" } else { "runs-differ" };
    v.fail(sig, format!("{} runs, model {} runs; first difference at run {}: got {:?}, model {:?} (w={}, m={})", got.len(), want.len(), p, got.get(p), want.get(p), w, m));
}

/// pykmertools.MinimiserGenerator on sequences beyond 2^20 bases
pub struct GiantPython;
impl Leg for GiantPython {
    type Case = GiantCase;
    const NAME: &'static str = "giant-python";
    fn strategy(tier: Tier) -> BoxedStrategy<GiantCase> {
        giant_case_strategy(900_000, tier.pick(2_300_000, 4_500_000), true)
    }
    fn check(c: &GiantCase) -> Verdict {
        let mut v = Verdict::new();
        let c = &GiantCase { lead_gap: 0, ..c.clone() };
        let seq = c.seq();
        let w = c.w(seq.len());
        let want = model::minimiser_runs_fast(&seq, w, c.m);
        classify_giant(&mut v, c, seq.len(), w, &want);
        v.class("python-giant");
        match crate::pyworker::ask(&serde_json::json!({"op": "mins", "w": w, "m": c.m, "giant": c.giant.to_json()})).and_then(|r| super::c01::parse_tuples_u64(&r, 3)) {
            Err(e) => crate::pyworker::record_error(&mut v, e),
            Ok(got) => {
                let got: Vec<(u64, usize, usize)> = got.iter().map(|t| (t[0], t[1] as usize, t[2] as usize)).collect();
                let mut vv = Verdict::new();
                compare_big(&mut vv, &got, &want, w, c.m);
                if let Some(f) = vv.fail {
                    v.fail(format!("python-{}", f.sig), format!("pykmertools.MinimiserGenerator on {} bases: {}", seq.len(), f.msg));
                }
            }
        }
        v
    }
}

// ---------------------------------------------------------------------------------------------
// offsets beyond 2^32: a gap of about 4 GiB of ambiguous bytes in front of a short tail. Metamorphic
// oracle: the runs are those of the tail alone, shifted by the length of the gap. Needs 4.3 GB of
// memory and about 20 s, so it runs in the thorough tier only (shard 0), or with VERIF_FAR=1.

#[derive(Clone, Debug, Serialize, Deserialize)]
pub struct FarCase {
    pub tail: Bytes,
    pub w: usize,
    pub m: usize,
    /// the gap has 2^32 - short bytes
    pub short: usize,
}

impl FarCase {
    pub fn gap(&self) -> usize {
        (1usize << 32) - self.short
    }
    pub fn seq(&self) -> Vec<u8> {
        let mut s = vec![b'N'; self.gap()];
        s.extend_from_slice(&self.tail.0);
        s
    }
    pub fn want(&self) -> Vec<(u64, usize, usize)> {
        let g = self.gap();
        model::minimiser_runs(&self.tail.0, self.w, self.m).into_iter().map(|(a, s, e)| (a, s + g, e + g)).collect()
    }
}

pub fn far_strategy(max_w: usize) -> BoxedStrategy<FarCase> {
    gen::wm_strategy(31, max_w)
        .prop_flat_map(|(w, m)| (gen::seq(w, 400, false), Just(w), Just(m), prop_oneof![1 => 0usize..=40, 1 => 41usize..=300]))
        .prop_map(|(mut tail, w, m, short)| {
            // the tail starts with a clean stretch so that runs begin on both sides of 2^32
            let mut t: Vec<u8> = b"ACGTTGCAAGGCTTAACCGGTTACGATCGATCGGCTAGGCTAGCTAGGATCGATTAGCCATGCAAGTCCGATAGCTAGCTTTAGCGCGATATCGCATCGAGGCTAGCTAGATCCGATAGCTAGTCGATCGGCTAGGCT".to_vec();
            t.append(&mut tail);
            FarCase { tail: Bytes(t), w, m, short }
        })
        .boxed()
}

pub fn far_enabled(ctx: &Ctx) -> bool {
    ctx.shard == 0 && (ctx.tier == Tier::Thorough || std::env::var("VERIF_FAR").map(|v| v == "1").unwrap_or(false))
}

pub struct Far;
impl Leg for Far {
    type Case = FarCase;
    const NAME: &'static str = "offsets-beyond-2^32";
    fn strategy(_tier: Tier) -> BoxedStrategy<FarCase> {
        far_strategy(91)
    }
    fn check(c: &FarCase) -> Verdict {
        let mut v = Verdict::new();
        let want = c.want();
        v.nontrivial = want.iter().any(|r| r.2 > (1usize << 32));
        v.class("offsets-beyond-2^32");
        let seq = c.seq();
        let got: Vec<(u64, usize, usize)> = MinimiserGenerator::new(&seq, c.w, c.m).collect();
        compare_big(&mut v, &got, &want, c.w, c.m);
        v
    }
}

/// see c01.rs: equal-length strings that live only for the constructor call
pub struct Temporaries;
impl Leg for Temporaries {
    type Case = super::c01::TempCase;
    const NAME: &'static str = "python-equal-length-temporaries";
    fn strategy(_tier: Tier) -> BoxedStrategy<Self::Case> {
        super::c01::temp_strategy()
    }
    fn check(c: &Self::Case) -> Verdict {
        super::c01::check_temporaries(c, 1)
    }
}

/// first calls of a fresh process made by several threads at once
pub struct Cold;
impl Leg for Cold {
    type Case = super::coldstart::Case;
    const NAME: &'static str = "cold-start-threads";
    fn strategy(_tier: Tier) -> BoxedStrategy<Self::Case> {
        use super::coldstart::Op;
        let op = gen::wm_strategy(31, 91).prop_flat_map(|(w, m)| super::coldstart::small_seq(w).prop_map(move |seq| Op::Minimiser { seq, w, m })).boxed();
        super::coldstart::case_strategy(op)
    }
    fn check(c: &Self::Case) -> Verdict {
        super::coldstart::check(c, "cold-start-wrong-result")
    }
}

/// histories on one thread: minimiser (and k-mer) iterators alive together, advanced in a generated interleaving, dropped early, rebuilt
pub struct Sessions;
impl Leg for Sessions {
    type Case = super::sessions::Session;
    const NAME: &'static str = "call-histories";
    fn strategy(_tier: Tier) -> BoxedStrategy<Self::Case> {
        super::sessions::strategy(&[1, 1, 0])
    }
    fn check(c: &Self::Case) -> Verdict {
        super::sessions::check(c)
    }
}

/// one Python iterator object driven by a script (next / for-with-break / list / iter, calls after the end)
pub struct PySessions;
impl Leg for PySessions {
    type Case = super::pysessions::PySession;
    const NAME: &'static str = "python-call-histories";
    fn strategy(_tier: Tier) -> BoxedStrategy<Self::Case> {
        super::pysessions::strategy(true)
    }
    fn check(c: &Self::Case) -> Verdict {
        super::pysessions::check(c)
    }
}

pub fn run(ctx: &mut Ctx) {
    let ns = ctx.share(ctx.tier.pick(8_000, 160_000));
    ctx.run_leg::<Sessions>(ns, false, 400);

    let nc = ctx.share(ctx.tier.pick(1_600, 24_000));
    ctx.run_leg::<Cold>(nc, false, 40);
    super::coldstart::infra_inconclusive(ctx);

    if far_enabled(ctx) {
        ctx.run_leg::<Far>(2, false, 0);
    }
    let np = ctx.share(ctx.tier.pick(6_000, 120_000));
    ctx.run_leg::<PySessions>(np, false, 300);
    let nt = ctx.share(ctx.tier.pick(1_600, 30_000));
    ctx.run_leg::<Temporaries>(nt, false, 200);
    let n = ctx.share(ctx.tier.pick(64, 1_600));
    ctx.run_leg::<GiantLib>(n, false, 12);
    let n = ctx.share(ctx.tier.pick(24, 480));
    ctx.run_leg::<GiantPython>(n, false, 8);
    let n = ctx.share(ctx.tier.pick(30_000, 400_000));
    ctx.run_leg::<Python>(n, false, 1000);
    let maxlen = ctx.tier.pick(8, 11);
    let items = small_cases(maxlen, ctx.shard, ctx.nshards, 99);
    ctx.run_enum(
        "exhaustive",
        &format!("all strings over {{A,C,G,T,N}} of length 0..={} x (w,m) in {:?}", maxlen, SMALL_WM),
        items,
        false,
        |c| check_case(&c.seq, c.w, c.m),
    );
    let n = ctx.share(ctx.tier.pick(60_000, 2_000_000));
    ctx.run_leg::<Random>(n, false, 4000);
    crate::pyworker::infra_inconclusive(ctx);
}

pub fn replay(leg: &str, case: &serde_json::Value) -> Option<Result<Verdict, String>> {
    match leg {
        "exhaustive" | "random" => Some(crate::engine::replay_leg::<Random>(case)),
        "python" => Some(crate::engine::replay_leg::<Python>(case)),
        "giant-windows" => Some(crate::engine::replay_leg::<GiantLib>(case)),
        "python-call-histories" => Some(crate::engine::replay_leg::<PySessions>(case)),
        "python-equal-length-temporaries" => Some(crate::engine::replay_leg::<Temporaries>(case)),
        "offsets-beyond-2^32" => Some(crate::engine::replay_leg::<Far>(case)),
        "giant-python" => Some(crate::engine::replay_leg::<GiantPython>(case)),
        "cold-start-threads" => Some(crate::engine::replay_leg::<Cold>(case)),
        "call-histories" => Some(crate::engine::replay_leg::<Sessions>(case)),
        _ => None,
    }
}
