//! C15 — command-line options mean what they say and nothing more.
use super::cmd::{self, canonical, run_via_cli, run_via_lib, run_via_py_entry, same_results, Cmd, Outcome, Preset, Sub};
use crate::engine::{Ctx, Leg, Tier, Verdict};
use crate::gen::{self, Container, Rec, RecParams};
use crate::io;
use crate::model;
use proptest::prelude::*;
use serde::{Deserialize, Serialize};

#[derive(Clone, Debug, Serialize, Deserialize, PartialEq)]
pub enum Rel {
    /// same command through the library (documented meaning of the options)
    Library,
    /// another preset: equal after replacing the delimiter
    Preset(Preset),
    /// header flag toggled: exactly one more first line
    Header,
    /// another thread count: same results
    Threads(usize),
    /// counts toggled: normalised = counts / row sum
    Counts,
    /// --acgt toggled: same k-mers rendered as text
    Acgt,
    /// oligo: input through stdin instead of a file
    Stdin,
    /// same command line through the Python package's entry point (pykmertools.run_cli)
    PyEntry,
    /// the same command under another environment (pool-size variable, working directory and relative paths,
    /// locale, bare environment): same results
    Env(u8),
}

#[derive(Clone, Debug, Serialize, Deserialize)]
pub struct Case {
    pub recs: Vec<Rec>,
    pub alt: Vec<Rec>,
    pub cont: Container,
    pub cmd: Cmd,
    pub rel: Rel,
    /// the record list is written this many times (ids suffixed): outputs beyond 8 KiB / 64 KiB per worker
    #[serde(default)]
    pub copies: usize,
    /// a command executed (through the executable) into both output locations before the two compared runs:
    /// the options must mean the same on top of an earlier result
    #[serde(default)]
    pub prior: Option<Cmd>,
    /// this many identical degenerate records at the end of the input (kind 0 = no bases, 1 = one base, 2 = all N)
    #[serde(default)]
    pub tail_block: Option<(u8, usize)>,
}

fn other(c: &Case) -> Cmd {
    let mut b = c.cmd.clone();
    match &c.rel {
        Rel::Library | Rel::PyEntry => {}
        Rel::Preset(p) => b.preset = *p,
        Rel::Header => b.header = !b.header,
        Rel::Threads(t) => b.threads = *t,
        Rel::Counts => b.counts = !b.counts,
        Rel::Acgt => b.acgt = !b.acgt,
        Rel::Stdin => b.stdin = !b.stdin,
        Rel::Env(p) => b.env_profile = *p,
    }
    b
}

fn rows(data: &[u8], delim: &str, skip_header: bool) -> Result<Vec<Vec<f64>>, String> {
    let lines = io::lines_strict(data)?;
    let lines = if skip_header && !lines.is_empty() { &lines[1..] } else { &lines[..] };
    lines.iter().map(|l| io::parse_row(l, delim)).collect()
}

fn kcgr_f(data: &[u8]) -> Result<Vec<Vec<f64>>, String> {
    io::lines_strict(data)?.iter().map(|l| io::parse_tuples(l, 3).map(|t| t.iter().map(|x| x[2]).collect())).collect()
}

fn check_norm_relation(norm: &[Vec<f64>], counts: &[Vec<f64>]) -> Result<(), String> {
    if norm.len() != counts.len() {
        return Err(format!("{} normalised rows vs {} count rows", norm.len(), counts.len()));
    }
    for (i, (n, c)) in norm.iter().zip(counts.iter()).enumerate() {
        if n.len() != c.len() {
            return Err(format!("row {}: widths {} vs {}", i, n.len(), c.len()));
        }
        let sum: f64 = c.iter().sum();
        for (j, (x, y)) in n.iter().zip(c.iter()).enumerate() {
            let want = if sum == 0.0 { 0.0 } else { y / sum };
            if (x - want).abs() > 5e-7 + 1e-12 {
                return Err(format!("row {} column {}: default output {} but counts give {}/{} = {}", i, j, x, y, sum, want));
            }
            if y.fract() != 0.0 {
                return Err(format!("row {} column {}: count {} is not an integer", i, j, y));
            }
        }
    }
    Ok(())
}

/// `min` output against kmer::minimiser::MinimiserGenerator applied to every record (window 0 = the whole record)
fn min_against_core(recs: &[Rec], cmd: &Cmd, data: &[u8]) -> Result<(), String> {
    use std::collections::BTreeMap;
    let (w, m) = (cmd.w as usize, cmd.m as usize);
    let per_rec: Vec<Vec<(String, usize, usize)>> = recs
        .iter()
        .map(|r| {
            let weff = if w == 0 { r.seq.0.len().max(m) } else { w };
            kmer::minimiser::MinimiserGenerator::new(&r.seq.0, weff, m).map(|(x, s, e)| (kmer::numeric_to_kmer(x, m), s, e)).collect()
        })
        .collect();
    let lines = io::lines_strict(data)?;
    if !cmd.m2s {
        let mut got: Vec<(String, Vec<(String, usize, usize)>)> = Vec::new();
        for l in &lines {
            got.push(io::parse_s2m_line(l)?);
        }
        let mut want: Vec<(String, Vec<(String, usize, usize)>)> = recs.iter().zip(per_rec.iter()).map(|(r, x)| (r.id.clone(), x.clone())).collect();
        got.sort();
        want.sort();
        if got != want {
            let d = got.iter().zip(want.iter()).find(|(a, b)| a != b);
            return Err(format!("s2m: {} lines, {} records; first differing pair after sorting: {:?}", got.len(), want.len(), d.map(|(a, b)| (crate::util::trunc(&format!("{:?}", a), 160), crate::util::trunc(&format!("{:?}", b), 160)))));
        }
    } else {
        let mut got: BTreeMap<String, Vec<(String, usize, usize)>> = BTreeMap::new();
        for l in &lines {
            let (t, mut list) = io::parse_m2s_line(l)?;
            list.sort();
            got.insert(t, list);
        }
        let mut want: BTreeMap<String, Vec<(String, usize, usize)>> = BTreeMap::new();
        for (r, runs) in recs.iter().zip(per_rec.iter()) {
            for (t, s, e) in runs {
                want.entry(t.clone()).or_default().push((r.id.clone(), *s, *e));
            }
        }
        for l in want.values_mut() {
            l.sort();
        }
        if got != want {
            let d = want.iter().find(|(k, v)| got.get(*k) != Some(v));
            return Err(format!("m2s: {} minimisers listed, the core iterator gives {}; first difference {:?} vs {:?}", got.len(), want.len(), d.map(|x| crate::util::trunc(&format!("{:?}", x), 160)), d.and_then(|(k, _)| got.get(k)).map(|x| crate::util::trunc(&format!("{:?}", x), 160))));
        }
    }
    Ok(())
}

pub fn check_case(c0: &Case) -> Verdict {
    let mut v = Verdict::new();
    // replicate the records
    let mut c = c0.clone();
    if c0.copies > 1 {
        let mut recs = Vec::with_capacity(c0.recs.len() * c0.copies);
        for i in 0..c0.copies {
            for r in &c0.recs {
                if c0.copies <= 4 {
                    let seq = if c0.copies == 4 && i % 2 == 1 { crate::model::revcomp_text(&r.seq.0) } else { r.seq.0.clone() };
                    recs.push(Rec { id: r.id.clone(), desc: r.desc.clone(), seq: crate::util::Bytes(seq) });
                } else {
                    recs.push(Rec { id: format!("{}_{}", r.id, i), desc: r.desc.clone(), seq: r.seq.clone() });
                }
            }
        }
        c.recs = recs;
        v.class("replicated-records");
        v.class_if(c0.copies <= 4, "records-repeated-under-the-same-names");
    }
    if let Some((kind, size)) = c0.tail_block {
        let seq: Vec<u8> = match (kind % 3, c.cmd.sub) {
            (0, _) | (2, Sub::Cgr) => Vec::new(),
            (1, _) => b"A".to_vec(),
            _ => vec![b'N'; 40],
        };
        if seq.is_empty() && c.cont.is_fastq() {
            c.cont = Container { gz: c.cont.gz.clone(), ..Container::plain_fasta() };
        }
        for j in 0..size {
            c.recs.push(Rec { id: format!("tail{}", j), desc: None, seq: crate::util::Bytes(seq.clone()) });
        }
        v.class("degenerate-records-at-the-end");
        v.class_if(size >= 64, "degenerate-tail>=64-records");
    }
    let c = &c;
    let a = &c.cmd;
    let b = other(c);
    v.class(format!("{:?}-{}", a.sub, match &c.rel { Rel::Library => "library", Rel::Preset(_) => "preset", Rel::Header => "header", Rel::Threads(_) => "threads", Rel::Counts => "counts", Rel::Acgt => "acgt", Rel::Stdin => "stdin", Rel::PyEntry => "py-entry", Rel::Env(_) => "environment" }));
    let nondefault = [a.counts, a.header, a.preset != Preset::Spc, a.threads != 0, a.alt, a.acgt, a.m2s, a.w != 0, a.stdin].iter().filter(|&&x| x).count();
    v.nontrivial = c.recs.len() >= 2 && nondefault >= 2;
    v.class_if(a.spell != 0, "options-spelled-long-or-attached");
    if a.omit_defaults {
        let (full, short) = (Cmd { omit_defaults: false, ..a.clone() }.args("IN", Some("ALT"), "OUT").len(), a.args("IN", Some("ALT"), "OUT").len());
        v.class_if(short < full, "defaults-left-out");
    }
    let dir = crate::scratch_dir();
    // stdin needs an uncompressed stream; everything else uses the generated container
    let cont = if a.stdin || b.stdin { Container { gz: None, ..c.cont.clone() } } else { c.cont.clone() };
    let input = io::write_input(dir.path(), "in", &c.recs, &cont);
    let altp = io::write_input(dir.path(), "alt", &c.alt, &Container::plain_fasta());
    let stdin_data = std::fs::read(&input).unwrap();
    let out_a = dir.path().join("out_a");
    let out_b = dir.path().join("out_b");
    if let Some(p) = &c.prior {
        v.class("on-top-of-an-earlier-result");
        let prior_in = io::write_input(dir.path(), "prior", &c.alt, &Container::plain_fasta());
        for o in [&out_a, &out_b] {
            let r = run_via_cli(p, &prior_in, Some(&altp), o, None);
            if r.timed_out {
                v.class("cli-timeout");
                return v;
            }
            if !r.clean() {
                v.fail("cli-failed", format!("earlier run {:?}: {}", p.args("IN", Some("ALT"), "OUT"), r.describe()));
                return v;
            }
        }
    }
    let ra = run_via_cli(a, &input, Some(&altp), &out_a, Some(&stdin_data));
    if ra.timed_out {
        v.class("cli-timeout");
        return v;
    }
    if !ra.clean() {
        v.fail("cli-failed", format!("{:?}: {}", a.args("IN", Some("ALT"), "OUT"), ra.describe()));
        return v;
    }
    let rb: Outcome = match c.rel {
        Rel::Library => run_via_lib(a, &input, Some(&altp), &out_b),
        Rel::PyEntry => run_via_py_entry(a, &input, Some(&altp), &out_b, Some(&stdin_data)),
        _ => run_via_cli(&b, &input, Some(&altp), &out_b, Some(&stdin_data)),
    };
    if rb.timed_out {
        v.class("cli-timeout");
        return v;
    }
    if !rb.clean() {
        v.fail(if c.rel == Rel::Library { "library-failed" } else { "cli-failed" }, format!("{:?}: {}", b.args("IN", Some("ALT"), "OUT"), rb.describe()));
        return v;
    }
    let main = a.result_files()[0];
    let (da, db) = match (ra.files.get(main), rb.files.get(main)) {
        (Some(x), Some(y)) => (x.clone(), y.clone()),
        _ => {
            v.fail("no-output", format!("result file missing: a {} b {}", ra.files.contains_key(main), rb.files.contains_key(main)));
            return v;
        }
    };
    // whatever the relation: a result is text, line by line, without bytes that were never written
    for (which, d, cmd) in [("first", &da, a), ("second", &db, &b)] {
        if let Some(p) = d.iter().position(|&x| x == 0) {
            v.fail("nul-bytes-in-output", format!("{:?}: the {} run's output holds a NUL byte at offset {} of {}", cmd.args("IN", Some("ALT"), "OUT"), which, p, d.len()));
            return v;
        }
        if let Err(e) = io::lines_strict(d) {
            v.fail("malformed-output", format!("{:?}: the {} run's output: {}", cmd.args("IN", Some("ALT"), "OUT"), which, e));
            return v;
        }
    }
    let what = format!("{:?} vs {:?}", a.args("IN", Some("ALT"), "OUT"), if c.rel == Rel::Library { vec!["<library>".to_string()] } else { b.args("IN", Some("ALT"), "OUT") });
    match &c.rel {
        Rel::Library => {
            if let Err(e) = same_results(a, &ra, &rb) {
                v.fail("cli-differs-from-library", format!("{}: {}", what, e));
            } else if a.sub == Sub::Min {
                // the listing functions sit between the command line and the core iterator: the command's result
                // must also be what the core minimiser iterator yields record by record
                if let Err(e) = min_against_core(&c.recs, a, &da) {
                    v.fail("cli-differs-from-core-iterator", format!("{:?}: {}", a.args("IN", Some("ALT"), "OUT"), e));
                }
            }
        }
        Rel::Threads(_) | Rel::Stdin | Rel::PyEntry | Rel::Env(_) => {
            if let Err(e) = same_results(a, &ra, &rb) {
                v.fail(match c.rel { Rel::Stdin => "stdin-changes-result", Rel::PyEntry => "python-entry-differs-from-executable", Rel::Env(_) => "environment-changes-result", _ => "threads-change-result" }, format!("{} (environment profiles {} and {}): {}", what, a.env_profile, b.env_profile, e));
            }
        }
        Rel::Preset(p) => {
            // replace the delimiter byte of a's output by b's delimiter
            let (d1, d2) = (a.preset.delim().as_bytes()[0], p.delim().as_bytes()[0]);
            let conv: Vec<u8> = da.iter().map(|&x| if x == d1 { d2 } else { x }).collect();
            if conv != db {
                v.fail("preset-changes-more-than-delimiter", format!("{}: outputs differ beyond the delimiter", what));
            } else if let Some(kc) = ra.files.get("kmers.counts") {
                // the counts table of cov is not affected by the preset
                if canonical(a, "kmers.counts", kc) != canonical(a, "kmers.counts", rb.files.get("kmers.counts").map(|x| &x[..]).unwrap_or(&[])) {
                    v.fail("preset-changes-counts-table", what);
                }
            }
        }
        Rel::Header => {
            let (with, without) = if a.header { (&da, &db) } else { (&db, &da) };
            let rt = super::c04::rank_table(a.k as usize);
            let mut want = (rt.texts().join(a.preset.delim()) + "\n").into_bytes();
            want.extend_from_slice(without);
            if &want != with {
                v.fail("header-not-one-extra-line", format!("{}: header output is not the column line followed by the header-less output", what));
            }
        }
        Rel::Counts => {
            let (norm_d, cnt_d, norm_cmd) = if a.counts { (&db, &da, &b) } else { (&da, &db, a) };
            let r = match a.sub {
                Sub::KCgr => kcgr_f(norm_d).and_then(|n| kcgr_f(cnt_d).and_then(|c| check_norm_relation(&n, &c))),
                _ => rows(norm_d, norm_cmd.preset.delim(), norm_cmd.header && a.sub == Sub::Oligo)
                    .and_then(|n| rows(cnt_d, norm_cmd.preset.delim(), norm_cmd.header && a.sub == Sub::Oligo).and_then(|c| check_norm_relation(&n, &c))),
            };
            if let Err(e) = r {
                v.fail("counts-not-per-row-normalisation", format!("{}: {}", what, e));
            }
        }
        Rel::Acgt => {
            let (text_d, num_d) = if a.acgt { (&da, &db) } else { (&db, &da) };
            let r = io::parse_counts(text_d).and_then(|t| {
                io::parse_counts(num_d).and_then(|n| {
                    let mut tm: Vec<(u64, u64)> = Vec::new();
                    for (k, c) in t {
                        if k.len() != a.k as usize {
                            return Err(format!("text k-mer {:?} does not have {} letters", k, a.k));
                        }
                        tm.push((model::encode(k.as_bytes()).ok_or_else(|| format!("text k-mer {:?} is not over ACGT", k))?, c));
                    }
                    let mut nm: Vec<(u64, u64)> = Vec::new();
                    for (k, c) in n {
                        nm.push((k.parse::<u64>().map_err(|_| format!("numeric k-mer {:?}", k))?, c));
                    }
                    tm.sort();
                    nm.sort();
                    if tm != nm {
                        return Err(format!("{} text lines vs {} numeric lines, tables differ", tm.len(), nm.len()));
                    }
                    Ok(())
                })
            });
            if let Err(e) = r {
                v.fail("acgt-changes-more-than-rendering", format!("{}: {}", what, e));
            }
        }
    }
    v
}

fn threads_cli() -> BoxedStrategy<usize> {
    prop_oneof![1 => Just(0usize), 2 => Just(1usize), 2 => Just(2usize), 3 => 1usize..=16, 1 => Just(16usize)].boxed()
}

fn preset() -> BoxedStrategy<Preset> {
    prop::sample::select(vec![Preset::Csv, Preset::Tsv, Preset::Spc]).boxed()
}

/// a command with in-range options, plus the relations that make sense for it
pub fn cmd_strategy() -> BoxedStrategy<(Cmd, Rel)> {
    let oligo = (3u64..=7, any::<bool>(), preset(), any::<bool>(), threads_cli(), prop::bool::weighted(0.2))
        .prop_flat_map(|(k, counts, p, header, t, stdin)| {
            let cmd = Cmd { k, counts, preset: p, header, threads: t, stdin, ..Cmd::base(Sub::Oligo) };
            let rel = prop_oneof![3 => Just(Rel::Library), 2 => preset().prop_map(Rel::Preset), 2 => Just(Rel::Header), 2 => threads_cli().prop_map(Rel::Threads), 2 => Just(Rel::Counts), 1 => Just(Rel::Stdin), 1 => Just(Rel::PyEntry)];
            (Just(cmd), rel)
        });
    let cgr = (prop_oneof![2 => Just(1u64), 1 => Just(2u64), 4 => 1u64..=4096, 1 => Just(1u64 << 20)], threads_cli()).prop_flat_map(|(vs, t)| {
        let cmd = Cmd { vec_size: Some(vs), threads: t, ..Cmd::base(Sub::Cgr) };
        (Just(cmd), prop_oneof![4 => Just(Rel::Library), 2 => threads_cli().prop_map(Rel::Threads), 1 => Just(Rel::PyEntry)])
    });
    let kcgr = (3u64..=6, any::<bool>(), prop_oneof![2 => Just(1u64), 1 => Just(2u64), 4 => 1u64..=4096, 1 => Just(1u64 << 20)], threads_cli()).prop_flat_map(|(k, counts, vs, t)| {
        let cmd = Cmd { k, counts, vec_size: Some(vs), threads: t, ..Cmd::base(Sub::KCgr) };
        (Just(cmd), prop_oneof![4 => Just(Rel::Library), 2 => threads_cli().prop_map(Rel::Threads), 4 => Just(Rel::Counts), 1 => Just(Rel::PyEntry)])
    });
    let cov = (prop_oneof![2 => 7u64..=12, 1 => 7u64..=31], preset(), 5u64..=12, 5u64..=12, prop_oneof![3 => Just(6u64), 1 => 6u64..=128], any::<bool>(), any::<bool>(), threads_cli())
        .prop_flat_map(|(k, p, bs, bc, mem, counts, alt, t)| {
            let cmd = Cmd { k, preset: p, bin_size: bs, bin_count: bc, memory: mem, counts, alt, threads: t, ..Cmd::base(Sub::Cov) };
            (Just(cmd), prop_oneof![6 => Just(Rel::Library), 4 => preset().prop_map(Rel::Preset), 4 => threads_cli().prop_map(Rel::Threads), 4 => Just(Rel::Counts), 1 => Just(Rel::PyEntry)])
        });
    let min = (7u64..=28, prop_oneof![2 => Just(0u64), 3 => 1u64..=30], any::<bool>(), threads_cli()).prop_flat_map(|(m, d, m2s, t)| {
        let cmd = Cmd { m, w: if d == 0 { 0 } else { m + d }, m2s, threads: t, ..Cmd::base(Sub::Min) };
        (Just(cmd), prop_oneof![4 => Just(Rel::Library), 4 => threads_cli().prop_map(Rel::Threads), 1 => Just(Rel::PyEntry)])
    });
    let ctr = (prop_oneof![3 => 10u64..=14, 1 => 10u64..=31], prop_oneof![3 => Just(6u64), 1 => 6u64..=128], any::<bool>(), threads_cli()).prop_flat_map(|(k, mem, acgt, t)| {
        let cmd = Cmd { k, memory: mem, acgt, threads: t, ..Cmd::base(Sub::Ctr) };
        (Just(cmd), prop_oneof![4 => Just(Rel::Library), 4 => threads_cli().prop_map(Rel::Threads), 4 => Just(Rel::Acgt), 1 => Just(Rel::PyEntry)])
    });
    let base = prop_oneof![4 => oligo, 2 => cgr, 2 => kcgr, 3 => cov, 3 => min, 3 => ctr];
    // spelling of the options (short / long / long=value / attached) and, in a quarter of the cases,
    // a random subset of the options reset to their documented defaults and then left out
    (base, prop_oneof![2 => Just(0u64), 3 => any::<u64>()], prop::bool::weighted(0.25), any::<u16>())
        .prop_map(|((mut cmd, rel), spell, omit, reset)| {
            cmd.spell = spell;
            // the environment of the executable runs: derived from the generated spelling word (a third of the cases
            // run in a non-default environment, a seventh compare two environments)
            let e = (spell >> 40) as u8;
            if spell != 0 && e % 3 == 0 {
                cmd.env_profile = (spell >> 48) as u8 & 127;
            }
            let rel = if spell != 0 && e % 7 == 0 { Rel::Env(((spell >> 56) as u8 & 127) | 4) } else { rel };
            if omit {
                cmd.omit_defaults = true;
                let d = Cmd::base(cmd.sub);
                let bit = |i: u32| reset >> i & 1 == 1;
                if bit(0) && matches!(cmd.sub, Sub::Oligo | Sub::Cov) {
                    cmd.k = d.k;
                }
                if bit(1) {
                    cmd.preset = d.preset;
                }
                if bit(2) {
                    cmd.threads = 0;
                }
                if bit(3) {
                    cmd.bin_size = d.bin_size;
                }
                if bit(4) {
                    cmd.bin_count = d.bin_count;
                }
                if bit(5) {
                    cmd.memory = d.memory;
                }
                if bit(6) {
                    cmd.m = d.m;
                    if cmd.w != 0 && cmd.w <= cmd.m {
                        cmd.w = cmd.m + 1 + (cmd.w % 7);
                    }
                }
                if bit(7) {
                    cmd.w = 0;
                }
                if bit(8) {
                    cmd.m2s = false;
                }
            }
            (cmd, rel)
        })
        .boxed()
}

pub struct Relations;
impl Leg for Relations {
    type Case = Case;
    const NAME: &'static str = "relations";
    fn strategy(tier: Tier) -> BoxedStrategy<Case> {
        cmd_strategy()
            .prop_flat_map(move |(cmd, rel)| {
                let scale = match cmd.sub {
                    Sub::Min => (if cmd.w == 0 { cmd.m } else { cmd.w }) as usize,
                    Sub::Cgr => 8,
                    _ => cmd.k as usize,
                };
                let p = RecParams { max_records: tier.pick(12, 40), scale, max_len: tier.pick(150, 400), degenerate_w: 0, bounds: [scale, 0, 0], nuc_only: cmd.sub == Sub::Cgr };
                // relation tests need at least one record (an empty input is C16's subject)
                // cov: in a third of the cases one more record made of a repeated 40-base unit, so that its k-mers
                // have a multiplicity next to bin size x {1, bin count}: where the bin edges lie becomes visible
                let edge = if cmd.sub == Sub::Cov {
                    let (bs, bc) = (cmd.bin_size as usize, cmd.bin_count as usize);
                    prop_oneof![
                        2 => Just(None),
                        1 => (proptest::collection::vec(prop::sample::select(b"ACGT".to_vec()), 40), prop::sample::select(vec![bs - 1, bs, bs + 1, bs * (bc - 1), bs * bc - 1, bs * bc, 2 * bs]), 0usize..=1)
                            .prop_map(|(unit, r, d)| Some(unit.repeat(r + d))),
                    ]
                    .boxed()
                } else {
                    Just(None).boxed()
                };
                let copies = match cmd.sub {
                    // 2 and 4: the file concatenated with itself under the same names (4: every other copy reverse-complemented,
                    // mates of one name)
                    Sub::Min => prop_oneof![10 => Just(1usize), 2 => Just(2usize), 2 => Just(4usize), 1 => 40usize..=120, 1 => 200usize..=400].boxed(),
                    Sub::Oligo | Sub::Cgr => prop_oneof![12 => Just(1usize), 1 => 40usize..=120, 1 => 200usize..=400].boxed(),
                    _ => Just(1usize).boxed(),
                };
                // an earlier command with the same kind of output location (file / directory)
                let is_dir = cmd.out_is_dir();
                let prior = prop_oneof![
                    3 => Just(None).boxed(),
                    1 => cmd_strategy().prop_map(move |(p, _)| if p.out_is_dir() == is_dir && !p.stdin { Some(p) } else { None }).boxed(),
                ];
                let tail_block = prop_oneof![
                    6 => Just(None),
                    1 => (0u8..3, prop_oneof![2 => 1usize..=8, 2 => prop::sample::select(vec![63usize, 64, 65, 100, 127, 128, 129, 200, 256, 500, 1000, 1024, 1500]), 1 => 1usize..=700]).prop_map(Some),
                ];
                (gen::records_mixed_in_container(p), gen::records(p), edge, copies, prior, tail_block).prop_map(move |((mut recs, cont), alt, edge, copies, prior, tail_block)| {
                    if let Some(e) = edge {
                        recs.push(Rec { id: "edge_multiplicity".into(), desc: None, seq: crate::util::Bytes(e) });
                    }
                    // oligo, a fifth of the cases: a record with exactly 128 / 256 / 384 / 640 valid windows (frequencies that are
                    // exact ties at the sixth decimal: c / 128 for odd c) - file and stdin input, presets and thread counts must
                    // still agree to the byte
                    if cmd.sub == Sub::Oligo {
                        let h = crate::util::fnv64(format!("{}:{}:{:?}", recs.len(), cmd.k, cmd.threads).as_bytes());
                        if h % 5 == 2 {
                            let windows = [128usize, 256, 384, 640][(h >> 8) as usize % 4];
                            let mut x = h | 1;
                            let seq: Vec<u8> = (0..windows + cmd.k as usize - 1).map(|_| { x = crate::util::splitmix(x); b"ACGT"[(x >> 33) as usize & 3] }).collect();
                            let at = (h >> 16) as usize % (recs.len() + 1);
                            recs.insert(at, Rec { id: format!("tie{}", windows), desc: None, seq: crate::util::Bytes(seq) });
                        }
                    }
                    if recs.is_empty() {
                        recs.push(Rec { id: "only".into(), desc: None, seq: crate::util::Bytes(b"ACGTTGCAAGGCTTAACCGGTTACGATCGATCGGCTA".to_vec()) });
                    }
                    let cont = if recs.iter().any(|r| r.seq.0.is_empty()) && cont.is_fastq() { Container::plain_fasta() } else { cont };
                    // the earlier run reads the alternative records; whole-sequence CGR needs nucleotides only
                    let prior = match prior {
                        Some(p) if p.sub == Sub::Cgr && alt.iter().any(|r| r.seq.0.iter().any(|&b| !crate::model::is_base(b))) => None,
                        o => o,
                    };
                    Case { recs, alt, cont, cmd: cmd.clone(), rel: rel.clone(), copies, prior, tail_block }
                })
            })
            .boxed()
    }
    fn check(c: &Case) -> Verdict {
        check_case(c)
    }
}

// ---------------------------------------------------------------------------------------------
// refusals: values just outside the documented ranges

#[derive(Clone, Debug, Serialize, Deserialize)]
pub struct RefuseCase {
    pub sub: Sub,
    /// option name and the offending value
    pub opt: String,
    pub value: String,
    /// for the window refusal: m
    pub m: u64,
}

pub fn refuse_cases() -> Vec<RefuseCase> {
    let mut v = Vec::new();
    fn add_to(v: &mut Vec<RefuseCase>, sub: Sub, opt: &str, vals: &[&str]) {
        for val in vals {
            v.push(RefuseCase { sub, opt: opt.to_string(), value: val.to_string(), m: 10 });
        }
    }
    add_to(&mut v, Sub::Oligo, "-k", &["2", "8", "0", "x", "-1", "3.5"]);
    add_to(&mut v, Sub::KCgr, "-k", &["2", "8", "x"]);
    add_to(&mut v, Sub::Cov, "-k", &["6", "32", "x"]);
    add_to(&mut v, Sub::Cov, "-s", &["0", "4", "x"]);
    add_to(&mut v, Sub::Cov, "-c", &["0", "4", "-3"]);
    add_to(&mut v, Sub::Cov, "-m", &["5", "129", "0"]);
    add_to(&mut v, Sub::Ctr, "-k", &["9", "32", "x"]);
    add_to(&mut v, Sub::Ctr, "-m", &["5", "129"]);
    add_to(&mut v, Sub::Min, "-m", &["6", "29", "31", "x"]);
    // a window not longer than m
    for (m, w) in [(10u64, 10u64), (10, 9), (10, 1), (7, 7), (28, 28), (28, 5)] {
        v.push(RefuseCase { sub: Sub::Min, opt: "-w".into(), value: w.to_string(), m });
    }
    add_to(&mut v, Sub::Min, "-w", &["x", "-1"]);
    add_to(&mut v, Sub::Oligo, "-p", &["json"]);
    add_to(&mut v, Sub::Oligo, "-t", &["x", "-1"]);
    v
}

pub fn check_refuse(c: &RefuseCase) -> Verdict {
    let mut v = Verdict::new();
    v.nontrivial = true;
    v.class(format!("refuse-{:?}{}", c.sub, c.opt));
    let dir = crate::scratch_dir();
    let recs = vec![
        Rec { id: "r1".into(), desc: None, seq: crate::util::Bytes(b"ACGTTGCAAGGCTTAACCGGTTACGATCGATCGGCTAGGCTAGCTAGGATCGA".to_vec()) },
        Rec { id: "r2".into(), desc: None, seq: crate::util::Bytes(b"TTGACCAGTAGGCTAGCTAGGATCGAACGTTGCAAGGCTTAACCGG".to_vec()) },
    ];
    let input = io::write_input(dir.path(), "in", &recs, &Container::plain_fasta());
    let out = dir.path().join("out_refused");
    let mut cmd = Cmd::base(c.sub);
    cmd.m = c.m;
    let mut args = cmd.args(&io::path_str(&input), None, &io::path_str(&out));
    // replace the option's value (the base command names every ranged option explicitly)
    match args.iter().position(|a| *a == c.opt) {
        Some(i) => args[i + 1] = c.value.clone(),
        None => {
            args.push(c.opt.clone());
            args.push(c.value.clone());
        }
    }
    let r = crate::cli::run_cli(&args, None, 60);
    if r.timed_out {
        v.class("cli-timeout");
        return v;
    }
    if r.panicked() {
        v.fail("refusal-by-panic", format!("{:?}: out-of-range value was met with a panic: {}", args, crate::util::trunc(&r.stderr, 300)));
        return v;
    }
    if r.stderr.trim().is_empty() {
        v.fail("no-diagnostic", format!("{:?}: no diagnostic on stderr (exit {:?})", args, r.code));
        return v;
    }
    if out.exists() {
        v.fail("output-produced-on-refusal", format!("{:?}: the output location exists after the refusal", args));
    }
    v
}

// ---------------------------------------------------------------------------------------------
// generated refusals: a random accepted command in a random spelling with ONE option pushed outside
// its documented range (also far outside: values that would wrap into the range if truncated)

#[derive(Clone, Debug, Serialize, Deserialize)]
pub struct RefuseGenCase {
    pub cmd: Cmd,
    /// what is out of range (class label)
    pub what: String,
}

/// integers outside [lo, hi] (hi = None: unbounded above), including wrap-around candidates
fn outside(lo: u64, hi: Option<u64>) -> BoxedStrategy<String> {
    let mut alts: Vec<BoxedStrategy<String>> = Vec::new();
    if lo > 0 {
        alts.push((0..lo).prop_map(|x| x.to_string()).boxed());
        alts.push(Just((lo - 1).to_string()).boxed());
        alts.push((1i64..=40).prop_map(|x| (-x).to_string()).boxed());
    }
    // text that is not an unsigned integer at all
    alts.push(prop::sample::select(vec!["x", "", "3.5", "1e1", "0x10", "ten", "7 ", "٣"]).prop_map(String::from).boxed());
    // beyond u64: must be refused whatever the range
    alts.push((0u64..=40).prop_map(|d| format!("1844674407370955{}", 1616 + d)).boxed());
    if let Some(hi) = hi {
        alts.push(Just((hi + 1).to_string()).boxed());
        alts.push((hi + 1..=hi + 300).prop_map(|x| x.to_string()).boxed());
        // values that land inside the range when truncated to 8 / 16 / 32 bits
        alts.push((lo..=hi, prop::sample::select(vec![8u32, 16, 32, 63]), 1u64..=3).prop_map(|(v, b, n)| (((if b == 63 { 1 } else { n }) << b) + v).to_string()).boxed());
        alts.push(Just(u64::MAX.to_string()).boxed());
    }
    proptest::strategy::Union::new(alts).boxed()
}

pub struct RefuseGen;
impl Leg for RefuseGen {
    type Case = RefuseGenCase;
    const NAME: &'static str = "refusals-generated";
    fn strategy(_tier: Tier) -> BoxedStrategy<RefuseGenCase> {
        cmd_strategy()
            .prop_flat_map(|(cmd, _)| {
                let m = cmd.m;
                let choices: Vec<(&'static str, &'static str, BoxedStrategy<String>)> = match cmd.sub {
                    Sub::Oligo => vec![("-k", "oligo-k", outside(3, Some(7)))],
                    Sub::KCgr => vec![("-k", "kcgr-k", outside(3, Some(7)))],
                    Sub::Cgr => vec![("-v", "cgr-v-malformed", prop::sample::select(vec!["x", "-4", "2.5", ""]).prop_map(String::from).boxed())],
                    Sub::Cov => vec![
                        ("-k", "cov-k", outside(7, Some(31))),
                        ("-s", "cov-bin-size", outside(5, None)),
                        ("-c", "cov-bin-count", outside(5, None)),
                        ("-m", "cov-memory", outside(6, Some(128))),
                    ],
                    Sub::Ctr => vec![("-k", "ctr-k", outside(10, Some(31))), ("-m", "ctr-memory", outside(6, Some(128)))],
                    Sub::Min => vec![
                        ("-m", "min-m", outside(7, Some(28))),
                        // a window not longer than m (0 is the documented whole-record mode)
                        ("-w", "min-w-not-longer-than-m", prop_oneof![2 => (1..=m).prop_map(|x| x.to_string()), 2 => Just(m.to_string()), 1 => Just("-1".to_string()), 1 => Just("x".to_string())].boxed()),
                    ],
                };
                let n = choices.len();
                (Just(cmd), 0..n).prop_flat_map(move |(cmd, i)| {
                    let (opt, what, vals) = choices[i].clone();
                    (Just(cmd), Just(opt), Just(what), vals)
                })
            })
            .prop_map(|(mut cmd, opt, what, val)| {
                if opt == "-m" && cmd.sub == Sub::Min && cmd.w != 0 {
                    // keep the window longer than whatever m would be read, so that only m is at fault
                    cmd.w = 4000;
                }
                cmd.override_opt = Some((opt.to_string(), val));
                RefuseGenCase { cmd, what: what.to_string() }
            })
            .boxed()
    }
    fn check(c: &RefuseGenCase) -> Verdict {
        let mut v = Verdict::new();
        v.nontrivial = true;
        v.class(format!("refuse-gen-{}", c.what));
        let val = &c.cmd.override_opt.as_ref().unwrap().1;
        v.class_if(val.parse::<u64>().map(|x| x > 255).unwrap_or(false), "refuse-gen-beyond-8-bits");
        v.class_if(c.cmd.spell != 0, "refuse-gen-spelled");
        let dir = crate::scratch_dir();
        let recs = vec![
            Rec { id: "r1".into(), desc: None, seq: crate::util::Bytes(b"ACGTTGCAAGGCTTAACCGGTTACGATCGATCGGCTAGGCTAGCTAGGATCGA".to_vec()) },
            Rec { id: "r2".into(), desc: None, seq: crate::util::Bytes(b"TTGACCAGTAGGCTAGCTAGGATCGAACGTTGCAAGGCTTAACCGG".to_vec()) },
        ];
        let input = io::write_input(dir.path(), "in", &recs, &Container::plain_fasta());
        let out = dir.path().join("out_refused");
        let mut cmd = c.cmd.clone();
        cmd.stdin = false;
        let args = cmd.args(&io::path_str(&input), Some(&io::path_str(&input)), &io::path_str(&out));
        let r = crate::cli::run_cli(&args, None, 60);
        if r.timed_out {
            v.class("cli-timeout");
            return v;
        }
        if r.panicked() {
            v.fail("refusal-by-panic", format!("{:?}: out-of-range value was met with a panic: {}", args, crate::util::trunc(&r.stderr, 300)));
            return v;
        }
        if r.stderr.trim().is_empty() {
            v.fail("no-diagnostic", format!("{:?}: no diagnostic on stderr (exit {:?})", args, r.code));
            return v;
        }
        if out.exists() {
            v.fail("output-produced-on-refusal", format!("{:?}: the output location exists after the refusal", args));
        }
        v
    }
}

pub fn run(ctx: &mut Ctx) {
    let n = ctx.share(ctx.tier.pick(4_000, 60_000));
    ctx.run_leg::<Relations>(n, false, 120);
    let cases: Vec<RefuseCase> = refuse_cases().into_iter().enumerate().filter(|(i, _)| i % ctx.nshards == ctx.shard).map(|(_, c)| c).collect();
    ctx.run_enum("refusals", "fixed list of out-of-range / malformed option values", cases.into_iter(), false, check_refuse);
    let n = ctx.share(ctx.tier.pick(8_000, 120_000));
    ctx.run_leg::<RefuseGen>(n, false, 120);
    super::timeouts_inconclusive(ctx);
}

pub fn replay(leg: &str, case: &serde_json::Value) -> Option<Result<Verdict, String>> {
    match leg {
        "relations" => Some(crate::engine::replay_leg::<Relations>(case)),
        "refusals-generated" => Some(crate::engine::replay_leg::<RefuseGen>(case)),
        "refusals" => {
            let c: RefuseCase = serde_json::from_value(case.clone()).ok()?;
            Some(crate::engine::guarded(|| check_refuse(&c)))
        }
        _ => None,
    }
}

#[allow(dead_code)]
fn _unused(_: cmd::Outcome) {}
