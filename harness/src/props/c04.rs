//! C04 — oligo vector of a record counts its canonical k-mers, raw or normalised.
use super::oligo_exec::{self, check_row, OligoCfg, Writer};
use crate::cli::{run_cli, sv};
use crate::engine::{Ctx, Leg, Tier, Verdict};
use crate::gen::{self, Container, Rec, RecParams, Sched};
use crate::model::{self, RankTable};
use crate::util::Bytes;
use crate::io;
use composition::oligo::OligoComputer;
use proptest::prelude::*;
use serde::{Deserialize, Serialize};

pub fn lower(s: &[u8]) -> Vec<u8> {
    s.iter().map(|b| b.to_ascii_lowercase()).collect()
}
pub fn t2u(s: &[u8]) -> Vec<u8> {
    s.iter()
        .map(|&b| match b {
            b'T' => b'U',
            b't' => b'u',
            o => o,
        })
        .collect()
}

fn classify(v: &mut Verdict, seq: &[u8], rt: &RankTable) {
    let (counts, total) = model::oligo_counts(seq, rt);
    let nz = counts.iter().filter(|&&c| c > 0).count();
    v.nontrivial |= nz >= 2;
    v.class_if(total == 0, "no-window");
    v.class_if(seq.iter().any(|&b| !model::is_base(b)), "has-foreign");
    let rc = model::revcomp_text(seq);
    v.class_if(total > 0 && rc.eq_ignore_ascii_case(seq), "palindromic-record");
}

// ---------------------------------------------------------------------------------------------
// leg 1: the per-sequence routine, unrounded

#[derive(Clone, Debug, Serialize, Deserialize)]
pub struct OneCase {
    pub seq: Bytes,
    pub k: usize,
    pub norm: bool,
    /// the sequence is repeated until it has at least this many bytes (0 = as it is): counts far
    /// beyond 255 / 65535 in one column
    #[serde(default)]
    pub min_len: usize,
}

pub fn stretched(seq: &[u8], min_len: usize) -> Vec<u8> {
    let mut out = seq.to_vec();
    if !seq.is_empty() {
        while out.len() < min_len {
            out.extend_from_slice(seq);
        }
    }
    out
}

pub fn min_len_strategy() -> BoxedStrategy<usize> {
    prop_oneof![120 => Just(0usize), 9 => Just(600usize), 4 => Just(5_000usize), 1 => Just(70_000usize)].boxed()
}

thread_local! {
    static RT: std::cell::RefCell<std::collections::HashMap<usize, std::rc::Rc<RankTable>>> = Default::default();
}
pub fn rank_table(k: usize) -> std::rc::Rc<RankTable> {
    RT.with(|m| m.borrow_mut().entry(k).or_insert_with(|| std::rc::Rc::new(RankTable::new(k))).clone())
}

thread_local! {
    static OC: std::cell::RefCell<std::collections::HashMap<(usize, bool), std::rc::Rc<OligoComputer>>> = Default::default();
}
fn computer(k: usize, norm: bool) -> std::rc::Rc<OligoComputer> {
    OC.with(|m| {
        m.borrow_mut()
            .entry((k, norm))
            .or_insert_with(|| {
                let mut oc = OligoComputer::new("unused.fa".into(), "unused.out".into(), k);
                oc.set_norm(norm);
                std::rc::Rc::new(oc)
            })
            .clone()
    })
}

pub fn check_vector(got: &[f64], seq: &[u8], rt: &RankTable, norm: bool, tol: f64) -> Result<(), (String, String)> {
    if got.len() != rt.len() {
        return Err(("vector-width".into(), format!("{} values, expected {}", got.len(), rt.len())));
    }
    let (counts, total) = model::oligo_counts(seq, rt);
    for (j, (&g, &c)) in got.iter().zip(counts.iter()).enumerate() {
        let want = if norm { if total == 0 { 0.0 } else { c as f64 / total as f64 } } else { c as f64 };
        if !(g.is_finite()) || (g - want).abs() > tol {
            return Err((
                if norm { "value-norm" } else { "value-count" }.into(),
                format!("column {} ({}): {} but model says {} (count {}, total {})", j, String::from_utf8_lossy(&model::decode(rt.table[j], rt.k)), g, want, c, total),
            ));
        }
    }
    Ok(())
}

pub fn check_one(c: &OneCase) -> Verdict {
    let mut v = Verdict::new();
    let rt = rank_table(c.k);
    let seq = stretched(&c.seq, c.min_len);
    classify(&mut v, &seq, &rt);
    v.class(format!("k={}", c.k));
    v.class_if(seq.len() > 256, "len>256");
    v.class_if(seq.len() > 65536, "len>65536");
    let oc = computer(c.k, c.norm);
    let tol = if c.norm { 1e-12 } else { 0.0 };
    let base = oc.verif_vectorise_one(&seq);
    if let Err((s, m)) = check_vector(&base, &seq, &rt, c.norm, tol) {
        v.fail(s, m);
        return v;
    }
    for (name, variant) in [("revcomp", model::revcomp_text(&seq)), ("lower", lower(&seq)), ("t2u", t2u(&seq))] {
        let r = oc.verif_vectorise_one(&variant);
        let differs = r.iter().zip(base.iter()).any(|(a, b)| (a - b).abs() > tol) || r.len() != base.len();
        if differs {
            let j = r.iter().zip(base.iter()).position(|(a, b)| (a - b).abs() > tol);
            v.fail(format!("invariance-{}", name), format!("row changes under {}: first differing column {:?}", name, j));
            return v;
        }
    }
    v
}

pub struct One;
impl Leg for One {
    type Case = OneCase;
    const NAME: &'static str = "vectorise-one";
    fn strategy(tier: Tier) -> BoxedStrategy<OneCase> {
        let max = tier.pick(300, 2000);
        (prop_oneof![8 => 1usize..=7, 1 => Just(8usize), 1 => Just(1usize)], any::<bool>())
            .prop_flat_map(move |(k, norm)| (gen::seq(k, if k >= 7 { max / 2 } else { max }, false), Just(k), Just(norm), min_len_strategy()))
            .prop_map(|(seq, k, norm, min_len)| OneCase { seq: Bytes(seq), k, norm, min_len })
            .boxed()
    }
    fn check(c: &OneCase) -> Verdict {
        check_one(c)
    }
}

// ---------------------------------------------------------------------------------------------
// leg 2: file API through both writers, leg 3: the executable

#[derive(Clone, Debug, Serialize, Deserialize)]
pub struct FileCase {
    pub recs: Vec<Rec>,
    pub k: usize,
    pub norm: bool,
    pub writer: Writer,
    pub delim: String,
    pub threads: usize,
    pub header: bool,
    /// (record index, minimum length): that record is repeated to this length
    #[serde(default)]
    pub stretch: Option<(u16, usize)>,
    /// when > 1 (and k <= 4): the record list is repeated this many times under distinct names, so that a batch
    /// holds hundreds of records (one batch = the whole file at the default memory limit)
    #[serde(default)]
    pub copies: usize,
}

fn seed_copies(recs: &[Rec]) -> u64 {
    crate::util::fnv64(recs.iter().map(|r| r.id.as_str()).collect::<Vec<_>>().join("/").as_bytes()) >> 7
}

fn materialise(c: &FileCase) -> Vec<Rec> {
    let mut recs = c.recs.clone();
    if let Some((i, min_len)) = c.stretch {
        if !recs.is_empty() {
            let idx = crate::util::idx16(i, recs.len());
            recs[idx].seq = Bytes(stretched(&recs[idx].seq, min_len));
        }
    }
    if c.copies > 1 && c.k <= 4 {
        let base = recs.clone();
        for j in 1..c.copies {
            for r in &base {
                if r.seq.0.len() <= 2000 {
                    recs.push(Rec { id: format!("{}_{}", r.id, j), desc: r.desc.clone(), seq: r.seq.clone() });
                }
            }
        }
    }
    recs
}

/// every record followed by its reverse complement, lower-case and T->U variants
fn with_variants(recs: &[Rec]) -> Vec<Rec> {
    let mut out = Vec::new();
    for (i, r) in recs.iter().enumerate() {
        out.push(r.clone());
        for (tag, s) in [("rc", model::revcomp_text(&r.seq)), ("lc", lower(&r.seq)), ("tu", t2u(&r.seq))] {
            out.push(Rec { id: format!("v{}_{}", i, tag), desc: None, seq: Bytes(s) });
        }
    }
    out
}

fn check_output(v: &mut Verdict, data: &[u8], all: &[Rec], rt: &RankTable, norm: bool, header: bool, delim: &str) {
    let seqs: Vec<&[u8]> = all.iter().map(|r| &r.seq.0[..]).collect();
    if let Err((s, m)) = oligo_exec::check_rows(data, &seqs, rt, norm, header, delim) {
        v.fail(s, m);
        return;
    }
    // metamorphic: the three variant rows agree with the original row
    let lines = io::lines_strict(data).unwrap();
    let lines = if header { &lines[1..] } else { &lines[..] };
    for g in 0..all.len() / 4 {
        let base = io::parse_row(&lines[4 * g], delim).unwrap();
        for (d, name) in [(1, "revcomp"), (2, "lower"), (3, "t2u")] {
            let r = io::parse_row(&lines[4 * g + d], delim).unwrap();
            let tol = if norm { 1e-6 } else { 0.0 };
            if r.iter().zip(base.iter()).any(|(a, b)| (a - b).abs() > tol) {
                v.fail(format!("invariance-{}", name), format!("record {}: row changes under {}", g, name));
                return;
            }
        }
    }
}

pub fn check_file(c: &FileCase) -> Verdict {
    let mut v = Verdict::new();
    let rt = rank_table(c.k);
    let recs = materialise(c);
    for r in &recs {
        classify(&mut v, &r.seq, &rt);
    }
    v.class(format!("k={}", c.k));
    v.class(format!("{:?}-{}", c.writer, if c.norm { "norm" } else { "counts" }));
    v.class_if(recs.iter().any(|r| r.seq.0.len() > 256), "record>256");
    let all = with_variants(&recs);
    let dir = crate::scratch_dir();
    let input = io::write_input(dir.path(), "in", &all, &Container::plain_fasta());
    let out = dir.path().join("out.txt");
    let cfg = OligoCfg { k: c.k, threads: c.threads, memory: 4 << 30, writer: c.writer, norm: c.norm, header: c.header, delim: c.delim.clone() };
    let r = oligo_exec::exec(&io::path_str(&input), &io::path_str(&out), &cfg, &Sched::Free);
    match r.result {
        Err(p) => {
            v.fail(crate::engine::panic_sig(&p), format!("vectorise panicked: {}", p));
            return v;
        }
        Ok(Err(e)) => {
            v.fail("vectorise-error", format!("vectorise returned Err({})", e));
            return v;
        }
        Ok(Ok(())) => {}
    }
    let data = r.output.unwrap_or_default();
    check_output(&mut v, &data, &all, &rt, c.norm, c.header, &c.delim);
    v
}

fn file_strategy(tier: Tier, cli: bool) -> BoxedStrategy<FileCase> {
    let k = if cli { (3usize..=7).boxed() } else { prop_oneof![12 => 1usize..=7, 1 => Just(8usize)].boxed() };
    (k, any::<bool>(), any::<bool>(), any::<bool>(), prop::sample::select(vec![" ", ",", "\t"]), gen::threads_strategy())
        .prop_flat_map(move |(k, norm, mmap, header, delim, threads)| {
            let p = RecParams {
                max_records: if k >= 8 { 3 } else { tier.pick(8, 12) },
                scale: k,
                max_len: if k >= 7 { 150 } else { tier.pick(200, 300) },
                degenerate_w: 2,
                bounds: [k, 0, 0],
                nuc_only: false,
            };
            let writer = if mmap && norm { Writer::Mmap } else { Writer::Batch };
            (gen::records(p), prop_oneof![40 => Just(None), 6 => (any::<u16>(), Just(600usize)).prop_map(Some), 3 => (any::<u16>(), Just(5_000usize)).prop_map(Some), 1 => (any::<u16>(), Just(70_000usize)).prop_map(Some)])
                .prop_flat_map(move |(recs, stretch)| {
                    let delim = delim.to_string();
                    prop_oneof![6 => Just(None), 1 => (any::<u16>(), any::<u64>()).prop_map(Some)].prop_map(move |distinct| {
                        let mut recs = recs.clone();
                        // one record (followed by others) with exactly 255 / 256 / 257 / 1024 ... distinct canonical k-mers
                        if let Some((pick, seed)) = distinct {
                            gen::plant_distinct(&mut recs, k, pick, seed);
                        }
                        // a tenth of the cases (k <= 4): 30 - 80 copies of the list (hundreds to a thousand records in one batch)
                        let copies = match distinct { None if seed_copies(&recs) % 10 == 3 => 30 + seed_copies(&recs) as usize / 10 % 51, _ => 1 };
                        FileCase { recs, k, norm, writer, delim: delim.clone(), threads, header, stretch, copies }
                    })
                })
        })
        .boxed()
}

pub struct Files;
impl Leg for Files {
    type Case = FileCase;
    const NAME: &'static str = "file-api";
    fn strategy(tier: Tier) -> BoxedStrategy<FileCase> {
        file_strategy(tier, false)
    }
    fn check(c: &FileCase) -> Verdict {
        check_file(c)
    }
}

pub fn check_cli(c: &FileCase) -> Verdict {
    let mut v = Verdict::new();
    let rt = rank_table(c.k);
    let recs = materialise(c);
    for r in &recs {
        classify(&mut v, &r.seq, &rt);
    }
    v.class(format!("k={}", c.k));
    v.class(format!("cli-{}", if c.norm { "norm" } else { "counts" }));
    v.class_if(recs.iter().any(|r| r.seq.0.len() > 256), "record>256");
    let all = with_variants(&recs);
    if all.is_empty() {
        // an empty input is C16's subject
        v.class("skipped-empty");
        return v;
    }
    let dir = crate::scratch_dir();
    let input = io::write_input(dir.path(), "in", &all, &Container::plain_fasta());
    let out = dir.path().join("out.txt");
    let preset = match c.delim.as_str() {
        "," => "csv",
        "\t" => "tsv",
        _ => "spc",
    };
    let mut args = sv(&["comp", "oligo", "-i", &io::path_str(&input), "-o", &io::path_str(&out), "-k", &c.k.to_string(), "-p", preset, "-t", &c.threads.to_string()]);
    if !c.norm {
        args.push("-c".into());
    }
    if c.header {
        args.push("-H".into());
    }
    let r = run_cli(&args, None, 120);
    if r.timed_out {
        v.class("cli-timeout");
        return v;
    }
    if !r.ok() || r.panicked() {
        v.fail("cli-failed", format!("exit {:?} signal {:?} stderr {}", r.code, r.signal, crate::util::trunc(&r.stderr, 500)));
        return v;
    }
    let data = std::fs::read(&out).unwrap_or_default();
    check_output(&mut v, &data, &all, &rt, c.norm, c.header, &c.delim);
    v
}

pub struct Cli;
impl Leg for Cli {
    type Case = FileCase;
    const NAME: &'static str = "cli";
    fn strategy(tier: Tier) -> BoxedStrategy<FileCase> {
        file_strategy(tier, true)
    }
    fn check(c: &FileCase) -> Verdict {
        check_cli(c)
    }
}

// ---------------------------------------------------------------------------------------------
// leg 4: the Python binding against the model (ASCII strings)

pub fn ascii_only(seq: &[u8]) -> Vec<u8> {
    seq.iter().map(|&b| { let c = b & 0x7f; if c < 4 { b'N' } else { c } }).collect()
}

pub fn check_python(c: &OneCase) -> Verdict {
    let mut v = Verdict::new();
    let rt = rank_table(c.k);
    // bytes >= 0x80 become multi-byte characters (every byte of which is ambiguous for the model)
    let seq = super::c01::utf8_safe(&stretched(&c.seq, c.min_len));
    classify(&mut v, &seq, &rt);
    v.class("python");
    v.class_if(seq.iter().any(|&b| b >= 0x80), "python-non-ascii");
    let tol = if c.norm { 1e-12 } else { 0.0 };
    let ask = |s: &[u8]| -> Result<Vec<f64>, String> {
        let r = crate::pyworker::ask(&serde_json::json!({"op": "oligo", "k": c.k, "norm": c.norm, "seq": crate::pyworker::hex(s)}))?;
        r["ok"].as_array().map(|a| a.iter().map(|x| x.as_f64().unwrap_or(f64::NAN)).collect()).ok_or_else(|| format!("python answered {}", crate::util::trunc(&r.to_string(), 200)))
    };
    let base = match ask(&seq) {
        Ok(b) => b,
        Err(e) => {
            crate::pyworker::record_error(&mut v, e);
            return v;
        }
    };
    if let Err((s, m)) = check_vector(&base, &seq, &rt, c.norm, tol) {
        v.fail(format!("python-{}", s), format!("pykmertools.OligoComputer({}).vectorise_one: {}", c.k, m));
        return v;
    }
    // variants are formed on the generated bytes and then turned into text (reversing UTF-8 bytes would not be text)
    let raw = stretched(&c.seq, c.min_len);
    for (name, variant) in [("revcomp", model::revcomp_text(&raw)), ("lower", lower(&raw)), ("t2u", t2u(&raw))] {
        let variant = super::c01::utf8_safe(&variant);
        match ask(&variant) {
            Ok(r) => {
                if r.len() != base.len() || r.iter().zip(base.iter()).any(|(a, b)| (a - b).abs() > tol) {
                    v.fail(format!("python-invariance-{}", name), format!("Python row changes under {}", name));
                    return v;
                }
            }
            Err(e) => {
                crate::pyworker::record_error(&mut v, e);
                return v;
            }
        }
    }
    // the batch method of the same object: one row per string, each equal to the model's row of that string;
    // the batch also holds strings without a single window (empty, shorter than k, only ambiguous bytes)
    let mut batch: Vec<Vec<u8>> = vec![seq.clone(), Vec::new(), super::c01::utf8_safe(&model::revcomp_text(&raw))];
    batch.push(super::c01::utf8_safe(&raw[..raw.len().min(c.k.saturating_sub(1))]));
    batch.push(vec![b'N'; c.k + 2]);
    batch.push(seq.clone());
    let hexes: Vec<String> = batch.iter().map(|b| crate::pyworker::hex(b)).collect();
    match crate::pyworker::ask(&serde_json::json!({"op": "oligo_batch", "k": c.k, "norm": c.norm, "seqs": hexes})) {
        Err(e) => crate::pyworker::record_error(&mut v, e),
        Ok(r) => {
            if !r["ok"].is_array() {
                crate::pyworker::record_error(&mut v, format!("python answered {}", crate::util::trunc(&r.to_string(), 200)));
                return v;
            }
            let rows: Vec<Vec<f64>> = r["ok"].as_array().map(|a| a.iter().map(|row| row.as_array().map(|x| x.iter().map(|y| y.as_f64().unwrap_or(f64::NAN)).collect()).unwrap_or_default()).collect()).unwrap_or_default();
            if rows.len() != batch.len() {
                v.fail("python-batch-rows", format!("vectorise_batch of {} strings returns {} rows", batch.len(), rows.len()));
                return v;
            }
            v.class("python-batch");
            for (i, (row, b)) in rows.iter().zip(batch.iter()).enumerate() {
                if let Err((s, m)) = check_vector(row, b, &rt, c.norm, tol) {
                    v.fail(format!("python-batch-{}", s), format!("pykmertools.OligoComputer({}).vectorise_batch, string {} of {} ({} bytes): {}", c.k, i, batch.len(), b.len(), m));
                    return v;
                }
            }
        }
    }
    v
}

pub struct Python;
impl Leg for Python {
    type Case = OneCase;
    const NAME: &'static str = "python";
    fn strategy(tier: Tier) -> BoxedStrategy<OneCase> {
        One::strategy(tier)
    }
    fn check(c: &OneCase) -> Verdict {
        check_python(c)
    }
}

// ---------------------------------------------------------------------------------------------
// leg 5: giant records (tens of thousands to millions of bases, near-homopolymers and repeats): counts
// beyond 2^16 / 2^20 / 2^24, frequencies within 5e-7 of 0 and 1, block-wise fast paths

#[derive(Clone, Debug, Serialize, Deserialize)]
pub struct GiantCase {
    pub giant: gen::Giant,
    pub small: Vec<Rec>,
    pub k: usize,
    pub norm: bool,
    pub writer: Writer,
    pub delim: String,
    pub threads: usize,
    pub header: bool,
    /// position of the giant record among the small ones
    pub at: u16,
}

fn giant_recs(c: &GiantCase) -> Vec<Rec> {
    let mut recs = c.small.clone();
    let at = crate::util::idx16(c.at, recs.len() + 1);
    recs.insert(at, Rec { id: "giant".into(), desc: None, seq: Bytes(c.giant.expand()) });
    recs
}

fn classify_giant(v: &mut Verdict, seq: &[u8], rt: &RankTable) {
    let (counts, total) = model::oligo_counts(seq, rt);
    let top = counts.iter().copied().max().unwrap_or(0);
    v.nontrivial = total > 0;
    v.class_if(top > (1 << 16), "count>2^16");
    v.class_if(top > (1 << 24), "count>2^24");
    v.class_if(total > 0 && top < total && (top as f64 / total as f64) > 0.9999995, "frequency-rounds-up-to-1");
    v.class_if(counts.iter().any(|&c| c > 0 && (c as f64 / total as f64) < 5e-7), "frequency-rounds-down-to-0");
}

pub fn check_giant_file(c: &GiantCase) -> Verdict {
    let mut v = Verdict::new();
    let rt = rank_table(c.k);
    let recs = giant_recs(c);
    v.class(c.giant.label());
    v.class(format!("k={}", c.k));
    v.class(format!("giant-{:?}-{}", c.writer, if c.norm { "norm" } else { "counts" }));
    let g = recs.iter().find(|r| r.id == "giant").unwrap();
    classify_giant(&mut v, &g.seq, &rt);
    // the giant record is followed by its reverse complement only (the other variants are leg 2's business)
    let mut all = Vec::new();
    for r in &recs {
        all.push(r.clone());
        if r.id == "giant" {
            all.push(Rec { id: "giant_rc".into(), desc: None, seq: Bytes(model::revcomp_text(&r.seq)) });
        }
    }
    let dir = crate::scratch_dir();
    let input = io::write_input(dir.path(), "in", &all, &Container::plain_fasta());
    let out = dir.path().join("out.txt");
    let cfg = OligoCfg { k: c.k, threads: c.threads, memory: 4 << 30, writer: c.writer, norm: c.norm, header: c.header, delim: c.delim.clone() };
    let r = oligo_exec::exec(&io::path_str(&input), &io::path_str(&out), &cfg, &Sched::Free);
    match r.result {
        Err(p) => {
            v.fail(crate::engine::panic_sig(&p), format!("vectorise panicked: {}", p));
            return v;
        }
        Ok(Err(e)) => {
            v.fail("vectorise-error", format!("vectorise returned Err({})", e));
            return v;
        }
        Ok(Ok(())) => {}
    }
    let data = r.output.unwrap_or_default();
    let seqs: Vec<&[u8]> = all.iter().map(|r| &r.seq.0[..]).collect();
    if let Err((s, m)) = oligo_exec::check_rows(&data, &seqs, &rt, c.norm, c.header, &c.delim) {
        v.fail(s, m);
    }
    v
}

fn giant_strategy(tier: Tier, python: bool) -> BoxedStrategy<GiantCase> {
    let k = prop_oneof![3 => Just(1usize), 2 => 2usize..=4, 1 => 5usize..=8];
    let hi = tier.pick(3_400_000, 17_500_000);
    (k, prop::bool::weighted(0.7), any::<bool>(), any::<bool>(), prop::sample::select(vec![" ", ",", "\t"]), gen::threads_strategy(), any::<u16>())
        .prop_flat_map(move |(k, norm, mmap, header, delim, threads, at)| {
            let p = RecParams { max_records: 3, scale: k, max_len: 100, degenerate_w: 1, bounds: [k, 0, 0], nuc_only: false };
            let writer = if mmap && norm { Writer::Mmap } else { Writer::Batch };
            let lo = if python { 900_000 } else { 60_000 };
            // the pseudo-random arm: a record of 1.5 - 60 kb that meets (nearly) every canonical k-mer of k = 6 / 7, with the
            // small records after it on few threads (per-thread or per-object scratch space sized for sparse rows)
            let rich = if python { gen::giant(lo, hi, b"ACGTN".to_vec()) } else { gen::giant_random(1_500, 60_000, b"ACGTN".to_vec()) };
            (prop_oneof![2 => gen::giant(lo, hi, b"ACGTN".to_vec()), 1 => gen::giant_near_one(hi.min(3_400_000)), 1 => rich], gen::records(p)).prop_map(move |(giant, small)| {
                let (mut k, mut threads, mut at) = (k, threads, at);
                if giant.rand_seed.is_some() {
                    k = 6 + (at as usize % 2);
                    threads = 1 + (threads % 2);
                    if at % 4 != 3 {
                        at = 0;
                    }
                }
                GiantCase { giant, small, k, norm, writer, delim: delim.to_string(), threads, header, at }
            })
        })
        .boxed()
}

pub struct GiantFiles;
impl Leg for GiantFiles {
    type Case = GiantCase;
    const NAME: &'static str = "giant-records";
    fn strategy(tier: Tier) -> BoxedStrategy<GiantCase> {
        giant_strategy(tier, false)
    }
    fn check(c: &GiantCase) -> Verdict {
        check_giant_file(c)
    }
}

/// the same giant sequences through pykmertools.OligoComputer.vectorise_one (expanded inside the worker)
pub struct GiantPython;
impl Leg for GiantPython {
    type Case = GiantCase;
    const NAME: &'static str = "giant-python";
    fn strategy(tier: Tier) -> BoxedStrategy<GiantCase> {
        giant_strategy(tier, true)
    }
    fn check(c: &GiantCase) -> Verdict {
        let mut v = Verdict::new();
        let rt = rank_table(c.k);
        let seq = c.giant.expand();
        v.class(c.giant.label());
        v.class("python-giant");
        classify_giant(&mut v, &seq, &rt);
        let tol = if c.norm { 1e-12 } else { 0.0 };
        match crate::pyworker::ask(&serde_json::json!({"op": "oligo", "k": c.k, "norm": c.norm, "giant": c.giant.to_json()})) {
            Err(e) => crate::pyworker::record_error(&mut v, e),
            Ok(r) => match r["ok"].as_array() {
                None => v.fail("python-giant-answer", format!("python answered {}", crate::util::trunc(&r.to_string(), 300))),
                Some(a) => {
                    let row: Vec<f64> = a.iter().map(|x| x.as_f64().unwrap_or(f64::NAN)).collect();
                    if let Err((s, m)) = check_vector(&row, &seq, &rt, c.norm, tol) {
                        v.fail(format!("python-{}", s), format!("pykmertools.OligoComputer({}).vectorise_one on {} bases: {}", c.k, seq.len(), m));
                    }
                }
            },
        }
        v
    }
}

pub fn run(ctx: &mut Ctx) {
    let n = ctx.share(ctx.tier.pick(128, 3_200));
    ctx.run_leg::<GiantFiles>(n, true, 12);
    let n = ctx.share(ctx.tier.pick(48, 1_600));
    ctx.run_leg::<GiantPython>(n, false, 12);

    let n = ctx.share(ctx.tier.pick(6_000, 100_000));
    ctx.run_leg::<Python>(n, false, 500);
    let n = ctx.share(ctx.tier.pick(200_000, 3_000_000));
    ctx.run_leg::<One>(n, false, 2000);
    let n = ctx.share(ctx.tier.pick(6_000, 100_000));
    ctx.run_leg::<Files>(n, true, 400);
    let n = ctx.share(ctx.tier.pick(1_500, 20_000));
    ctx.run_leg::<Cli>(n, false, 200);
    super::timeouts_inconclusive(ctx);
    crate::pyworker::infra_inconclusive(ctx);
}

pub fn replay(leg: &str, case: &serde_json::Value) -> Option<Result<Verdict, String>> {
    match leg {
        "vectorise-one" => Some(crate::engine::replay_leg::<One>(case)),
        "file-api" => Some(crate::engine::replay_leg::<Files>(case)),
        "cli" => Some(crate::engine::replay_leg::<Cli>(case)),
        "python" => Some(crate::engine::replay_leg::<Python>(case)),
        "giant-records" => Some(crate::engine::replay_leg::<GiantFiles>(case)),
        "giant-python" => Some(crate::engine::replay_leg::<GiantPython>(case)),
        _ => None,
    }
}
