//! Cold-start concurrency: a *fresh process* in which several threads, released together by a spin
//! gate, make the very first calls into the pure routines of the `kmer` crate (reverse complement,
//! decoding, canonical rank tables, both iterators). Lazily initialised tables, `thread_local!`
//! scratch state and caches only misbehave under exactly that schedule; the long-lived shard
//! processes can never reproduce it because their first call happened long ago on one thread.
//! The oracle is the same reference model as everywhere else.
use crate::model;
use crate::util::Bytes;
use kmer::kmer::KmerGenerator;
use kmer::kmer_minimisers::KmerMinimiserGenerator;
use kmer::minimiser::MinimiserGenerator;
use proptest::prelude::*;
use serde::{Deserialize, Serialize};
use serde_json::{json, Value};
use std::io::{Read, Write};
use std::process::{Command, Stdio};
use std::sync::atomic::{AtomicUsize, Ordering};
use std::sync::Arc;

#[derive(Clone, Debug, Serialize, Deserialize)]
pub enum Op {
    RevComp { k: usize, codes: Vec<u64> },
    Decode { k: usize, codes: Vec<u64> },
    /// canonical rank tables; reported as (count, index -> k-mer list, ranks found at the canonical codes)
    PosMaps { k: usize },
    KmerIter { seq: Bytes, k: usize },
    Minimiser { seq: Bytes, w: usize, m: usize },
    KmerMinimiser { seq: Bytes, w: usize, m: usize },
}

#[derive(Clone, Debug, Serialize, Deserialize)]
pub struct Case {
    /// per thread: the operations it executes, in order, once the gate opens
    pub threads: Vec<Vec<Op>>,
}

fn run_op(op: &Op) -> Value {
    match op {
        Op::RevComp { k, codes } => json!(codes.iter().map(|&x| KmerGenerator::rev_comp(x, *k)).collect::<Vec<u64>>()),
        Op::Decode { k, codes } => json!(codes.iter().map(|&x| kmer::numeric_to_kmer(x, *k)).collect::<Vec<String>>()),
        Op::PosMaps { k } => {
            let (fwd, inv, count) = KmerGenerator::kmer_pos_maps(*k);
            let inv_list: Vec<Option<u64>> = (0..count).map(|i| inv.get(&i).copied()).collect();
            let at_canon: Vec<usize> = (0..model::pow4(*k)).filter(|&x| x <= model::rc_code(x, *k)).map(|x| fwd.get(x as usize).copied().unwrap_or(usize::MAX)).collect();
            json!({"count": count, "fwd_len": fwd.len(), "inv_len": inv.len(), "inv": inv_list, "at_canon": at_canon})
        }
        Op::KmerIter { seq, k } => json!(KmerGenerator::new(&seq.0, *k).collect::<Vec<(u64, u64)>>()),
        Op::Minimiser { seq, w, m } => json!(MinimiserGenerator::new(&seq.0, *w, *m).collect::<Vec<(u64, usize, usize)>>()),
        Op::KmerMinimiser { seq, w, m } => {
            let items: Vec<(u64, usize, usize, Vec<u64>)> = KmerMinimiserGenerator::new(&seq.0, *w, *m).collect();
            json!({"runs": items.iter().map(|x| (x.0, x.1, x.2)).collect::<Vec<_>>(), "kmers": items.iter().flat_map(|x| x.3.iter().copied()).collect::<Vec<u64>>()})
        }
    }
}

fn expect_op(op: &Op) -> Value {
    match op {
        Op::RevComp { k, codes } => json!(codes.iter().map(|&x| model::rc_code(x, *k)).collect::<Vec<u64>>()),
        Op::Decode { k, codes } => json!(codes.iter().map(|&x| String::from_utf8(model::decode(x, *k)).unwrap()).collect::<Vec<String>>()),
        Op::PosMaps { k } => {
            let canon: Vec<u64> = (0..model::pow4(*k)).filter(|&x| x <= model::rc_code(x, *k)).collect();
            let n = canon.len();
            json!({"count": n, "fwd_len": model::pow4(*k), "inv_len": n, "inv": canon.iter().map(|&x| Some(x)).collect::<Vec<_>>(), "at_canon": (0..n).collect::<Vec<usize>>()})
        }
        Op::KmerIter { seq, k } => json!(model::windows(&seq.0, *k).iter().map(|w| (w.1, w.2)).collect::<Vec<(u64, u64)>>()),
        Op::Minimiser { seq, w, m } => json!(model::minimiser_runs(&seq.0, *w, *m)),
        Op::KmerMinimiser { seq, w, m } => json!({"runs": model::minimiser_runs(&seq.0, *w, *m), "kmers": model::canonical_stream(&seq.0, *w)}),
    }
}

/// child side: `vh coldstart` — case on stdin, results on stdout
pub fn child_main() {
    let mut s = String::new();
    std::io::stdin().read_to_string(&mut s).expect("stdin");
    let case: Case = serde_json::from_str(&s).expect("case");
    let n = case.threads.len();
    let gate = Arc::new(AtomicUsize::new(0));
    let handles: Vec<_> = case
        .threads
        .into_iter()
        .map(|ops| {
            let gate = Arc::clone(&gate);
            std::thread::spawn(move || {
                gate.fetch_add(1, Ordering::SeqCst);
                // spin briefly, then yield: on a loaded machine 16 spinning threads per process would starve
                // the threads that have not arrived yet
                let mut spins = 0u32;
                while gate.load(Ordering::SeqCst) < n {
                    spins += 1;
                    if spins < 2_000 {
                        std::hint::spin_loop();
                    } else {
                        std::thread::yield_now();
                    }
                }
                ops.iter().map(run_op).collect::<Vec<Value>>()
            })
        })
        .collect();
    let out: Vec<Value> = handles.into_iter().map(|h| h.join().map(Value::Array).unwrap_or_else(|_| json!("panic"))).collect();
    std::io::stdout().write_all(serde_json::to_string(&out).unwrap().as_bytes()).unwrap();
}

/// parent side: run the case in a fresh process; Err = infrastructure, Ok(None) = as expected,
/// Ok(Some(msg)) = some thread saw a wrong result
pub fn run_case(c: &Case) -> Result<Option<String>, String> {
    let exe = std::env::current_exe().map_err(|e| e.to_string())?;
    let mut child = Command::new(exe).arg("coldstart").stdin(Stdio::piped()).stdout(Stdio::piped()).stderr(Stdio::piped()).spawn().map_err(|e| e.to_string())?;
    child.stdin.take().unwrap().write_all(serde_json::to_string(c).unwrap().as_bytes()).map_err(|e| e.to_string())?;
    let out = child.wait_with_output().map_err(|e| e.to_string())?;
    if !out.status.success() {
        return Ok(Some(format!("the cold-start process died: {:?} {}", out.status, crate::util::trunc(&String::from_utf8_lossy(&out.stderr), 300))));
    }
    let got: Vec<Value> = serde_json::from_slice(&out.stdout).map_err(|e| format!("unreadable result: {}", e))?;
    for (t, ops) in c.threads.iter().enumerate() {
        let g = match got.get(t) {
            Some(Value::Array(a)) => a,
            other => return Ok(Some(format!("thread {} panicked or returned nothing: {:?}", t, other.map(|x| crate::util::trunc(&x.to_string(), 100))))),
        };
        for (i, op) in ops.iter().enumerate() {
            let want = expect_op(op);
            if g.get(i) != Some(&want) {
                let (a, b) = (g.get(i).map(|x| x.to_string()).unwrap_or_default(), want.to_string());
                let p = a.bytes().zip(b.bytes()).position(|(x, y)| x != y).unwrap_or(a.len().min(b.len()));
                let ctx = |s: &str| s[p.saturating_sub(40).min(s.len())..(p + 40).min(s.len())].to_string();
                return Ok(Some(format!(
                    "thread {} of {}, operation {} ({}): result differs from the model near {:?} (model {:?})",
                    t,
                    c.threads.len(),
                    i,
                    crate::util::trunc(&format!("{:?}", op), 120),
                    ctx(&a),
                    ctx(&b)
                )));
            }
        }
    }
    Ok(None)
}

pub fn codes(k: usize, n: usize) -> BoxedStrategy<Vec<u64>> {
    let top = model::pow4(k) - 1;
    proptest::collection::vec(prop_oneof![6 => 0..=top, 1 => Just(top), 1 => Just(0u64), 1 => Just(top / 3)], 1..=n).boxed()
}

/// threads x ops from a per-op strategy; the number of threads is biased towards many
pub fn case_strategy(op: BoxedStrategy<Op>) -> BoxedStrategy<Case> {
    case_strategy_n(op, 3)
}

/// up to `max_ops` operations per thread (long per-thread lists keep the threads overlapping well after the start)
pub fn case_strategy_n(op: BoxedStrategy<Op>, max_ops: usize) -> BoxedStrategy<Case> {
    // few threads leave the gate closest together (a first-use window of some hundred nanoseconds), many threads
    // give more chances of an overlap later on
    prop_oneof![4 => 2usize..=3, 2 => 4usize..=8, 2 => 9usize..=16]
        .prop_flat_map(move |t| proptest::collection::vec(proptest::collection::vec(op.clone(), 1..=max_ops), t))
        .prop_map(|threads| Case { threads })
        .boxed()
}

/// verdict of one cold-start case (shared by the legs of C01, C02, C03, C09, C18)
pub fn check(c: &Case, sig: &str) -> crate::engine::Verdict {
    let mut v = crate::engine::Verdict::new();
    v.nontrivial = c.threads.len() >= 2;
    v.class("cold-start");
    v.class_if(c.threads.len() >= 8, "cold-start-8+-threads");
    match run_case(c) {
        Err(_) => v.class("coldstart-infra-error"),
        Ok(None) => {}
        Ok(Some(msg)) => v.fail(sig, msg),
    }
    v
}

pub fn infra_inconclusive(ctx: &mut crate::engine::Ctx) {
    if let Some(n) = ctx.out.classes.get("coldstart-infra-error").copied() {
        if n > 0 {
            ctx.out.inconclusive.push(format!("{} cold-start processes could not be run", n));
        }
    }
}

pub fn small_seq(scale: usize) -> BoxedStrategy<Bytes> {
    crate::gen::seq(scale, 60, false).prop_map(Bytes).boxed()
}
