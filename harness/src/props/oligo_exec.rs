//! Shared executor for the oligo composition kernels (used by C04, C05, C14, C16, C17).
#![allow(dead_code)]
use crate::engine::guarded;
use crate::gen::Sched;
use crate::io;
use crate::model::{self, RankTable};
use crate::sched::{self, SchedReport};
use composition::oligo::OligoComputer;
use serde::{Deserialize, Serialize};
use std::sync::{Arc, Mutex};

#[derive(Clone, Copy, Debug, Serialize, Deserialize, PartialEq, Eq)]
pub enum Writer {
    Mmap,
    Batch,
}

#[derive(Clone, Debug, Serialize, Deserialize, PartialEq, Eq)]
pub struct OligoCfg {
    pub k: usize,
    pub threads: usize,
    pub memory: usize,
    pub writer: Writer,
    pub norm: bool,
    pub header: bool,
    pub delim: String,
}

pub struct ExecOut {
    /// Ok(result of vectorise) or Err(panic text)
    pub result: Result<Result<(), String>, String>,
    pub output: Option<Vec<u8>>,
    pub report: SchedReport,
    pub writes: Vec<(usize, usize, usize)>,
    /// a logged write reached past its buffer (the hook panics before the copy happens)
    pub oob_write: Option<(usize, usize, usize)>,
}

thread_local! {
    /// when set, the computer first runs once on these file contents (written to the same input path); the
    /// real contents are then put back and the SAME object runs again - that second run is what is reported
    pub static FIRST_INPUT: std::cell::RefCell<Option<Vec<u8>>> = std::cell::RefCell::new(None);
}

pub fn exec(in_path: &str, out_path: &str, cfg: &OligoCfg, s: &Sched) -> ExecOut {
    crate::io::plant_stale(std::path::Path::new(out_path));
    let first_input = FIRST_INPUT.with(|f| f.borrow_mut().take());
    let log: Arc<Mutex<Vec<(usize, usize, usize)>>> = Arc::new(Mutex::new(Vec::new()));
    let oob: Arc<Mutex<Option<(usize, usize, usize)>>> = Arc::new(Mutex::new(None));
    let (l2, o2) = (log.clone(), oob.clone());
    ktio::verif::set_write_log(Some(Arc::new(move |pos, len, cap| {
        l2.lock().unwrap().push((pos, len, cap));
        if pos.checked_add(len).map(|e| e > cap).unwrap_or(true) {
            *o2.lock().unwrap() = Some((pos, len, cap));
            // stop here: the copy that follows would write outside the mapping
            panic!("verif: write_at({}, len {}) outside a buffer of {} bytes", pos, len, cap);
        }
    })));
    let guard = sched::install(s, cfg.threads, "oligo.mmap.taken", "oligo.mmap.exit");
    let result = guarded(|| {
        // another computer of the same k with other settings lives next to the one under test (shared,
        // cached or registered per-k data must not carry settings from one object to another)
        let mut other = OligoComputer::new(in_path.to_string(), format!("{}.cohabitant", out_path), cfg.k);
        other.set_norm(!cfg.norm);
        other.set_delim("|".to_string());
        other.set_header(!cfg.header);
        other.set_threads(1);
        let _keep_alive = &other;
        let mut oc = OligoComputer::new(in_path.to_string(), out_path.to_string(), cfg.k);
        oc.set_threads(cfg.threads);
        oc.set_norm(cfg.norm);
        oc.set_delim(cfg.delim.clone());
        oc.set_max_memory(cfg.memory);
        oc.set_header(cfg.header);
        let run = |oc: &OligoComputer| match cfg.writer {
            Writer::Mmap => oc.verif_vectorise_mmap(),
            Writer::Batch => oc.verif_vectorise_batch(),
        };
        if let Some(first) = &first_input {
            let real = std::fs::read(in_path).unwrap_or_default();
            std::fs::write(in_path, first).unwrap();
            let r1 = run(&oc);
            std::fs::write(in_path, &real).unwrap();
            r1?;
            log.lock().unwrap().clear();
        }
        run(&oc)
    });
    let report = guard.report();
    drop(guard);
    ktio::verif::set_write_log(None);
    let writes = log.lock().unwrap().clone();
    let oob_write = *oob.lock().unwrap();
    ExecOut {
        result,
        output: std::fs::read(out_path).ok(),
        report,
        writes,
        oob_write,
    }
}

/// Compare an output with the model, row by row. Returns Err((signature, message)).
pub fn check_rows(
    data: &[u8],
    seqs: &[&[u8]],
    rt: &RankTable,
    norm: bool,
    header: bool,
    delim: &str,
) -> Result<(), (String, String)> {
    let lines = io::lines_strict(data).map_err(|e| ("malformed-output".to_string(), e))?;
    let mut lines = &lines[..];
    if header {
        let want = rt.texts().join(delim);
        match lines.first() {
            Some(h) if *h == want => {}
            other => {
                return Err((
                    "header-line".into(),
                    format!("first line {:?} is not the header {:?}", other.map(|s| crate::util::trunc(s, 120)), crate::util::trunc(&want, 120)),
                ))
            }
        }
        lines = &lines[1..];
    }
    if lines.len() != seqs.len() {
        return Err(("row-count".into(), format!("{} rows for {} records", lines.len(), seqs.len())));
    }
    for (i, (line, seq)) in lines.iter().zip(seqs.iter()).enumerate() {
        check_row(line, seq, rt, norm, delim).map_err(|(s, m)| (s, format!("row {}: {}", i, m)))?;
    }
    Ok(())
}

pub fn check_row(line: &str, seq: &[u8], rt: &RankTable, norm: bool, delim: &str) -> Result<(), (String, String)> {
    let row = io::parse_row(line, delim).map_err(|e| ("malformed-row".to_string(), e))?;
    if row.len() != rt.len() {
        return Err(("row-width".into(), format!("{} values, expected {} columns", row.len(), rt.len())));
    }
    let (counts, total) = model::oligo_counts(seq, rt);
    for (j, (&got, &c)) in row.iter().zip(counts.iter()).enumerate() {
        if norm {
            let want = if total == 0 { 0.0 } else { c as f64 / total as f64 };
            if (got - want).abs() > 5e-7 + 1e-12 {
                return Err((
                    "value-norm".into(),
                    format!("column {} ({}): {} but count/total = {}/{} = {}", j, String::from_utf8_lossy(&model::decode(rt.table[j], rt.k)), got, c, total, want),
                ));
            }
        } else if got != c as f64 {
            return Err((
                "value-count".into(),
                format!("column {} ({}): {} but the record has {} such windows", j, String::from_utf8_lossy(&model::decode(rt.table[j], rt.k)), got, c),
            ));
        }
    }
    if !norm && line.contains('.') {
        return Err(("count-not-integer".into(), format!("counts row contains a decimal point: {:?}", crate::util::trunc(line, 80))));
    }
    Ok(())
}
