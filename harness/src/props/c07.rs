//! C07 — k-mer counting is exact and independent of threads, chunking and partitioning.
use crate::engine::{guarded, Ctx, Leg, Tier, Verdict};
use crate::gen::{self, Container, Rec, RecParams, Sched};
use crate::io;
use crate::model;
use crate::sched::{self, enumerate_schedules, SchedReport};
use crate::util::Bytes;
use counter::CountComputer;
use proptest::prelude::*;
use serde::{Deserialize, Serialize};
use std::collections::HashMap;
use std::path::Path;

#[derive(Clone, Debug)]
pub struct CtrCfg {
    pub k: usize,
    pub threads: usize,
    pub mem_gb: f64,
    pub acgt: bool,
}

pub struct CtrOut {
    pub result: Result<(), String>,
    pub chunks: usize,
    pub parts: usize,
    pub listing_after: Vec<String>,
    pub counts: Option<Vec<u8>>,
    pub report: SchedReport,
}

/// memory ceiling (GB) that makes the workers stop taking records once more than `limit` bases
/// were consumed in a chunk
pub fn mem_for_limit(limit: u64) -> f64 {
    (limit as f64 + 0.5) * 8.0 / 1e9
}

pub fn target_limit(recs: &[Rec], chunks: usize) -> u64 {
    let total: usize = recs.iter().map(|r| r.seq.0.len()).sum();
    // keep the number of partitions (about 0.47 x total/limit) and of temp files small
    ((total / chunks.max(1)) as u64).max((total as u64 / 30).max(1))
}

fn listing(dir: &Path) -> Vec<String> {
    let mut v: Vec<String> = std::fs::read_dir(dir)
        .map(|rd| rd.filter_map(|e| e.ok()).map(|e| e.file_name().to_string_lossy().to_string()).collect())
        .unwrap_or_default();
    v.sort();
    v
}

thread_local! {
    /// the counting is followed by this many merges that keep the temporary files, each of which must give the
    /// same table (as a multiset of lines), before the final merge that deletes them
    pub static EXTRA_MERGES: std::cell::Cell<usize> = std::cell::Cell::new(0);
}

pub fn exec(input: &str, outdir: &Path, cfg: &CtrCfg, s: &Sched) -> CtrOut {
    let extra = EXTRA_MERGES.with(|e| e.replace(0));
    let guard = sched::install(s, cfg.threads, "ctr.taken", "ctr.exit");
    let od = io::path_str(outdir);
    let mut mid: Vec<String> = Vec::new();
    let result = guarded(|| {
        let mut ctr = CountComputer::new(input.to_string(), od.clone(), cfg.k);
        ctr.set_threads(cfg.threads);
        ctr.set_max_memory(cfg.mem_gb);
        ctr.set_acgt_output(cfg.acgt);
        ctr.count();
        if extra % 2 == 1 {
            // the object asked to count once more: its input is used up, nothing may be added
            ctr.count();
        }
        mid = listing(outdir);
        let mut first: Option<Vec<String>> = None;
        for j in 0..extra {
            if j == 1 && extra % 3 == 1 {
                // ... and once more between two merges
                ctr.count();
            }
            ctr.merge(false);
            let text = std::fs::read_to_string(outdir.join("kmers.counts")).unwrap_or_default();
            let mut lines: Vec<String> = text.lines().map(|l| l.to_string()).collect();
            lines.sort();
            match &first {
                None => first = Some(lines),
                Some(f) if *f != lines => panic!("merge number {} of the same temporary files gives {} lines, the first one gave {} (as multisets they differ)", j + 1, lines.len(), f.len()),
                _ => {}
            }
        }
        ctr.merge(true);
        if let Some(f) = first {
            let text = std::fs::read_to_string(outdir.join("kmers.counts")).unwrap_or_default();
            let mut lines: Vec<String> = text.lines().map(|l| l.to_string()).collect();
            lines.sort();
            if f != lines {
                panic!("the final merge gives {} lines, an earlier merge of the same temporary files gave {}", lines.len(), f.len());
            }
        }
    });
    let report = guard.report();
    drop(guard);
    let mut chunks = 0;
    let mut parts = 0;
    for f in &mid {
        if let Some(rest) = f.strip_prefix("temp_kmers.part_") {
            if let Some((p, c)) = rest.split_once("_chunk_") {
                parts = parts.max(p.parse::<usize>().unwrap_or(0) + 1);
                chunks = chunks.max(c.parse::<usize>().unwrap_or(0) + 1);
            }
        }
    }
    CtrOut {
        result,
        chunks,
        parts,
        listing_after: listing(outdir),
        counts: std::fs::read(outdir.join("kmers.counts")).ok(),
        report,
    }
}

/// compare a counts file with the model table
pub fn check_counts(data: &[u8], want: &HashMap<u64, u64>, k: usize, acgt: bool) -> Result<(), (String, String)> {
    let lines = io::parse_counts(data).map_err(|e| ("malformed-counts".to_string(), e))?;
    let mut got: HashMap<u64, u64> = HashMap::new();
    for (key, c) in lines {
        let code = if acgt {
            if key.len() != k {
                return Err(("acgt-length".into(), format!("k-mer text {:?} does not have {} letters", key, k)));
            }
            if !key.bytes().all(|b| b"ACGT".contains(&b)) {
                return Err(("acgt-alphabet".into(), format!("k-mer text {:?} is not over ACGT", key)));
            }
            model::encode(key.as_bytes()).unwrap()
        } else {
            key.parse::<u64>().map_err(|_| ("malformed-counts".to_string(), format!("k-mer {:?} is not a number", key)))?
        };
        if got.insert(code, c).is_some() {
            return Err(("kmer-twice".into(), format!("k-mer {} ({}) is listed twice", code, String::from_utf8_lossy(&model::decode(code, k)))));
        }
    }
    if got == *want {
        return Ok(());
    }
    for (code, c) in want {
        match got.get(code) {
            None => {
                return Err((
                    "kmer-missing".into(),
                    format!("canonical k-mer {} ({}) occurs {} times but is not listed ({} listed, {} expected)", code, String::from_utf8_lossy(&model::decode(*code, k)), c, got.len(), want.len()),
                ))
            }
            Some(g) if g != c => {
                return Err((
                    if g < c { "count-too-low" } else { "count-too-high" }.into(),
                    format!("k-mer {} ({}): count {} but it occurs {} times", code, String::from_utf8_lossy(&model::decode(*code, k)), g, c),
                ))
            }
            _ => {}
        }
    }
    for (code, c) in &got {
        if !want.contains_key(code) {
            return Err(("kmer-invented".into(), format!("k-mer {} listed with count {} but it does not occur (or is not canonical)", code, c)));
        }
    }
    Err(("counts-differ".into(), "tables differ".into()))
}

#[derive(Clone, Debug, Serialize, Deserialize)]
pub struct Case {
    pub recs: Vec<Rec>,
    pub cont: Container,
    pub k: usize,
    pub threads: usize,
    /// target number of chunks
    pub chunks: usize,
    pub acgt: bool,
    pub sched: Sched,
    /// stale `temp_kmers.part_P_chunk_C` files of an imaginary earlier run are placed in the output
    /// directory before counting (P < 24, C < 6): a correct run never merges them
    #[serde(default)]
    pub decoys: bool,
    /// merges that keep the temporary files before the final one (every one must give the same table)
    #[serde(default)]
    pub extra_merges: u8,
}

pub fn place_decoys(outdir: &Path, k: usize) {
    for p in 0..24 {
        for c in 0..6 {
            let mut body = String::new();
            for j in 0..5u64 {
                // plausible lines: small codes < 4^k with a count
                let code = (p as u64 * 7 + c as u64 * 3 + j) % model::pow4(k.min(31));
                body.push_str(&format!("{}\t{}\n", code, 1000 + j));
            }
            let _ = std::fs::write(outdir.join(format!("temp_kmers.part_{}_chunk_{}", p, c)), body);
        }
    }
}

fn verdict_of(v: &mut Verdict, o: &CtrOut, want: &HashMap<u64, u64>, k: usize, acgt: bool, what: &str) {
    if let Err(p) = &o.result {
        v.fail(crate::engine::panic_sig(p), format!("count/merge panicked ({}): {}", what, p));
        return;
    }
    let data = match &o.counts {
        Some(d) => d,
        None => {
            v.fail("no-counts-file", format!("kmers.counts does not exist ({})", what));
            return;
        }
    };
    if let Err((s, m)) = check_counts(data, want, k, acgt) {
        v.fail(s, format!("{} [{}; {} chunks x {} partitions; release order {:?}]", m, what, o.chunks, o.parts, o.report.order));
        return;
    }
    if o.listing_after != vec!["kmers.counts".to_string()] {
        v.fail("temp-files-left", format!("after merge(delete) the directory holds {:?} ({})", o.listing_after, what));
    }
}

pub fn check_case(c: &Case) -> Verdict {
    let mut v = Verdict::new();
    let dir = crate::scratch_dir();
    let input = io::write_input(dir.path(), "in", &c.recs, &c.cont);
    let outdir = dir.path().join("out");
    std::fs::create_dir_all(&outdir).unwrap();
    let seqs: Vec<&[u8]> = c.recs.iter().map(|r| &r.seq.0[..]).collect();
    let want = model::count_table(&seqs, c.k);
    let cfg = CtrCfg { k: c.k, threads: c.threads, mem_gb: mem_for_limit(target_limit(&c.recs, c.chunks)), acgt: c.acgt };
    if c.decoys {
        place_decoys(&outdir, c.k);
    }
    EXTRA_MERGES.with(|e| e.set(if c.decoys { 0 } else { c.extra_merges as usize }));
    v.class_if(c.extra_merges > 0 && !c.decoys, "merged-several-times");
    v.class_if(!c.decoys && (c.extra_merges % 2 == 1 || (c.extra_merges > 1 && c.extra_merges % 3 == 1)), "counted-again-on-the-same-object");
    let mut o = exec(&io::path_str(&input), &outdir, &cfg, &c.sched);
    if c.decoys {
        // chunk/partition numbers are read from the temp files present after counting: not meaningful with decoys;
        // decoys that the run did not overwrite legitimately stay behind
        o.listing_after.retain(|f| !f.starts_with("temp_kmers."));
        v.class("stale-temp-files-present");
    }
    v.class(match o.chunks { 0 | 1 => "chunks<=1", 2..=3 => "chunks=2-3", 4..=9 => "chunks=4-9", _ => "chunks>=10" });
    v.class(match o.parts { 0 | 1 => "parts<=1", 2..=3 => "parts=2-3", 4..=9 => "parts=4-9", _ => "parts>=10" });
    v.class(match c.threads { 1 => "threads=1", 2..=3 => "threads=2-3", 4..=8 => "threads=4-8", _ => "threads>8" });
    v.class(match &c.sched { Sched::Free => "sched-free", Sched::Perturb(_) => "sched-perturb", Sched::Controlled(_) => "sched-controlled" });
    v.class_if(c.k >= 16, "k>=16");
    v.class_if(c.acgt, "acgt");
    v.class_if(o.report.degraded > 0, "sched-degraded");
    let repetitive = want.values().any(|&x| x >= 2);
    v.class_if(want.values().any(|&x| x >= 20), "repetitive");
    v.class(c.cont.label());
    v.nontrivial = o.chunks >= 2 && o.parts >= 2 && repetitive;
    verdict_of(&mut v, &o, &want, c.k, c.acgt, &format!("{} threads, k={}", c.threads, c.k));
    v
}

fn rec_params(tier: Tier, k: usize) -> RecParams {
    RecParams { max_records: tier.pick(40, 200), scale: k, max_len: tier.pick(200, 400), degenerate_w: 1, bounds: [k, 0, 0], nuc_only: false }
}

pub struct Runs;
impl Leg for Runs {
    type Case = Case;
    const NAME: &'static str = "runs";
    fn strategy(tier: Tier) -> BoxedStrategy<Case> {
        (gen::k_strategy(), gen::threads_strategy(), prop::sample::select(vec![1usize, 2, 3, 5, 12, 30]), any::<bool>(), prop::bool::weighted(0.2))
            .prop_flat_map(move |(k, threads, chunks, acgt, decoys)| {
                let p = rec_params(tier, k);
                (gen::records_mixed_in_container(p), gen::sched_strategy(true, 120), prop_oneof![3 => Just(0u8), 1 => 1u8..=4, 2 => 20u8..=60]).prop_map(move |((recs, cont), sched, extra_merges)| {
                    let threads = if matches!(sched, Sched::Controlled(_)) { ((threads - 1) % 6) + 1 } else { threads };
                    // the scheduler's epochs follow the counting workers only: the extra merges run free
                    let extra_merges = if matches!(sched, Sched::Controlled(_)) { 0 } else { extra_merges };
                    // a twelfth of the cases: a homopolymer record whose single k-mer has a multiplicity next to 1000 or 10 000
                    // (k >= 29 gives codes of 18-19 digits: the longest lines a numeric counts file can hold)
                    let mut recs = recs;
                    let h = crate::util::fnv64(format!("{}:{}:{}", recs.len(), k, extra_merges).as_bytes());
                    if h % 12 == 7 && !cont.is_fastq() {
                        let mult = [999usize, 1000, 1001, 9999, 10_000, 10_001, 1234, 12_345][(h >> 8) as usize % 8];
                        let b = b"CGTA"[(h >> 16) as usize % 4];
                        recs.push(Rec { id: format!("poly{}", mult), desc: None, seq: Bytes(vec![b; k - 1 + mult]) });
                    }
                    Case { recs, cont, k, threads, chunks, acgt, sched, decoys, extra_merges }
                })
            })
            .boxed()
    }
    fn check(c: &Case) -> Verdict {
        check_case(c)
    }
}

// ---------------------------------------------------------------------------------------------
// large inputs: tens of thousands of distinct k-mers per partition table and chunk file

pub struct Large;
impl Leg for Large {
    type Case = Case;
    const NAME: &'static str = "large-inputs";
    fn strategy(tier: Tier) -> BoxedStrategy<Case> {
        let nrec = tier.pick(60usize, 200);
        (prop_oneof![2 => 11usize..=16, 1 => 17usize..=31], prop_oneof![2 => Just(1usize), 2 => Just(2usize), 1 => 3usize..=8], prop::sample::select(vec![1usize, 1, 2, 3]), any::<bool>())
            .prop_flat_map(move |(k, threads, chunks, acgt)| {
                let p = RecParams { max_records: nrec, scale: k, max_len: 700, degenerate_w: 0, bounds: [k, 0, 0], nuc_only: false };
                (proptest::collection::vec(gen::seq(k, 700, true), nrec / 2..=nrec), Just(p)).prop_map(move |(seqs, _p)| {
                    let recs: Vec<Rec> = seqs.into_iter().enumerate().map(|(i, s)| Rec { id: format!("r{}", i), desc: None, seq: Bytes(s) }).collect();
                    Case { recs, cont: Container::plain_fasta(), k, threads, chunks, acgt, sched: Sched::Free, decoys: false, extra_merges: 0 }
                })
            })
            .boxed()
    }
    fn check(c: &Case) -> Verdict {
        let mut v = check_case(c);
        let distinct: std::collections::HashSet<u64> = c.recs.iter().flat_map(|r| model::canonical_stream(&r.seq, c.k)).collect();
        v.class(match distinct.len() { 0..=4096 => "distinct<=4096", 4097..=20000 => "distinct<=20000", _ => "distinct>20000" });
        v.nontrivial = distinct.len() > 4096;
        v
    }
}

// ---------------------------------------------------------------------------------------------
// records of more than a million bases (chromosome-sized), expanded from a seed

#[derive(Clone, Debug, Serialize, Deserialize)]
pub struct LongCase {
    pub seed: u64,
    /// record lengths
    pub lens: Vec<usize>,
    /// one ambiguous byte every `n_every` bases (0 = none)
    pub n_every: usize,
    /// 0 = random bases; p > 0 = the first p random bases repeated (few k-mers, counts beyond 65535)
    #[serde(default)]
    pub period: usize,
    pub k: usize,
    pub threads: usize,
    pub chunks: usize,
}

pub fn long_records(c: &LongCase) -> Vec<Rec> {
    let mut s = c.seed | 1;
    c.lens
        .iter()
        .enumerate()
        .map(|(i, &l)| {
            let mut seq = Vec::with_capacity(l);
            for j in 0..l {
                s = crate::util::splitmix(s);
                let b = if c.period > 0 && j >= c.period { seq[j - c.period] } else { b"ACGT"[(s >> 40) as usize & 3] };
                seq.push(if c.n_every > 0 && j % c.n_every == c.n_every - 1 { b'N' } else { b });
            }
            Rec { id: format!("chr{}", i), desc: None, seq: Bytes(seq) }
        })
        .collect()
}

pub struct Long;
impl Leg for Long {
    type Case = LongCase;
    const NAME: &'static str = "long-records";
    fn strategy(_tier: Tier) -> BoxedStrategy<LongCase> {
        let len = prop_oneof![2 => 1_048_570usize..=1_048_700, 2 => 1_048_577usize..=2_300_000, 1 => 200_000usize..=900_000];
        (any::<u64>(), proptest::collection::vec(len, 1..=2), prop_oneof![2 => Just(0usize), 1 => 50_000usize..=400_000], prop_oneof![1 => 1usize..=10, 2 => 11usize..=20, 1 => 21usize..=31], 1usize..=4, prop::sample::select(vec![1usize, 1, 2]), prop_oneof![2 => Just(0usize), 1 => 1usize..=12])
            .prop_map(|(seed, lens, n_every, k, threads, chunks, period)| LongCase { seed, lens, n_every, k, threads, chunks, period })
            .boxed()
    }
    fn check(c: &LongCase) -> Verdict {
        let mut v = Verdict::new();
        let recs = long_records(c);
        let dir = crate::scratch_dir();
        let input = io::write_input(dir.path(), "in", &recs, &Container::plain_fasta());
        let outdir = dir.path().join("out");
        std::fs::create_dir_all(&outdir).unwrap();
        let seqs: Vec<&[u8]> = recs.iter().map(|r| &r.seq.0[..]).collect();
        let want = model::count_table(&seqs, c.k);
        let cfg = CtrCfg { k: c.k, threads: c.threads, mem_gb: mem_for_limit(target_limit(&recs, c.chunks)), acgt: false };
        let o = exec(&io::path_str(&input), &outdir, &cfg, &Sched::Free);
        v.class("long-records");
        v.class_if(c.lens.iter().any(|&l| l > (1 << 20)), "record>2^20");
        v.class_if(want.values().any(|&x| x > 65535), "count>65535");
        v.nontrivial = c.lens.iter().any(|&l| l > (1 << 20));
        verdict_of(&mut v, &o, &want, c.k, false, &format!("records of {:?} bases, {} threads, k={}", c.lens, c.threads, c.k));
        v
    }
}

// ---------------------------------------------------------------------------------------------
// contention stress: all workers hit the same few keys

#[derive(Clone, Debug, Serialize, Deserialize)]
pub struct StressCase {
    pub unit: Bytes,
    pub copies: usize,
    pub k: usize,
    pub threads: usize,
    pub chunks: usize,
}

pub fn check_stress(c: &StressCase) -> Verdict {
    let mut v = Verdict::new();
    let recs: Vec<Rec> = (0..c.copies).map(|i| Rec { id: format!("r{}", i), desc: None, seq: c.unit.clone() }).collect();
    let dir = crate::scratch_dir();
    let input = io::write_input(dir.path(), "in", &recs, &Container::plain_fasta());
    let outdir = dir.path().join("out");
    std::fs::create_dir_all(&outdir).unwrap();
    let seqs: Vec<&[u8]> = recs.iter().map(|r| &r.seq.0[..]).collect();
    let want = model::count_table(&seqs, c.k);
    let cfg = CtrCfg { k: c.k, threads: c.threads, mem_gb: mem_for_limit(target_limit(&recs, c.chunks)), acgt: false };
    let o = exec(&io::path_str(&input), &outdir, &cfg, &Sched::Free);
    v.class("stress");
    v.nontrivial = c.copies >= 2 && !want.is_empty();
    verdict_of(&mut v, &o, &want, c.k, false, &format!("contention stress: {} identical records, {} threads, k={}", c.copies, c.threads, c.k));
    v
}

pub struct Stress;
impl Leg for Stress {
    type Case = StressCase;
    const NAME: &'static str = "contention-stress";
    fn strategy(tier: Tier) -> BoxedStrategy<StressCase> {
        let copies = tier.pick(64usize, 256);
        (1usize..=3, 8usize..=16, prop::sample::select(vec![1usize, 2, 4]))
            .prop_flat_map(move |(k, threads, chunks)| {
                (gen::nuc_seq(k, 400).prop_map(|s| if s.len() < 40 { let mut t = s.clone(); t.extend(vec![b'A'; 200]); t } else { s }), (copies / 2)..=copies)
                    .prop_map(move |(unit, copies)| StressCase { unit: Bytes(unit), copies, k, threads, chunks })
            })
            .boxed()
    }
    fn check(c: &StressCase) -> Verdict {
        check_stress(c)
    }
}

/// contention on new keys (adjacent duplicate records, k 7..=21, many threads, free-running)
#[derive(Clone, Debug, Serialize, Deserialize)]
pub struct DupCase {
    pub spec: gen::DupSpec,
    pub k: usize,
    pub threads: usize,
    pub chunks: usize,
}

pub struct DupStress;
impl Leg for DupStress {
    type Case = DupCase;
    const NAME: &'static str = "contention-new-keys";
    fn strategy(_tier: Tier) -> BoxedStrategy<DupCase> {
        (gen::dup_strategy(), 7usize..=21, 4usize..=16, prop::sample::select(vec![1usize, 1, 2, 3])).prop_map(|(spec, k, threads, chunks)| DupCase { spec, k, threads, chunks }).boxed()
    }
    fn check(c: &DupCase) -> Verdict {
        let mut v = Verdict::new();
        let recs = c.spec.expand();
        let dir = crate::scratch_dir();
        let input = io::write_input(dir.path(), "in", &recs, &Container::plain_fasta());
        let outdir = dir.path().join("out");
        std::fs::create_dir_all(&outdir).unwrap();
        let seqs: Vec<&[u8]> = recs.iter().map(|r| &r.seq.0[..]).collect();
        let want = model::count_table(&seqs, c.k);
        let cfg = CtrCfg { k: c.k, threads: c.threads, mem_gb: mem_for_limit(target_limit(&recs, c.chunks)), acgt: false };
        let o = exec(&io::path_str(&input), &outdir, &cfg, &Sched::Free);
        v.class("stress-new-keys");
        v.class_if(seqs.iter().map(|s| s.len()).sum::<usize>() > 65536, "stress-input>64KiB");
        v.nontrivial = true;
        verdict_of(&mut v, &o, &want, c.k, false, &format!("contention on new keys: {} units x {} adjacent copies after {} unrelated reads, {} threads, k={}", c.spec.units, c.spec.copies, c.spec.prefix, c.threads, c.k));
        v
    }
}

// ---------------------------------------------------------------------------------------------
// bounded-exhaustive schedules for small inputs

#[derive(Clone, Debug, Serialize, Deserialize)]
pub struct EnumCase {
    pub recs: Vec<Rec>,
    pub k: usize,
    pub threads: usize,
    pub chunks: usize,
    pub only: Option<Vec<u8>>,
}

thread_local! {
    pub static SCHEDULES: std::cell::Cell<(u64, u64, u64)> = std::cell::Cell::new((0, 0, 0));
}

pub fn check_enum(c: &EnumCase, limit: usize) -> Verdict {
    let mut v = Verdict::new();
    let dir = crate::scratch_dir();
    let input = io::write_input(dir.path(), "in", &c.recs, &Container::plain_fasta());
    let seqs: Vec<&[u8]> = c.recs.iter().map(|r| &r.seq.0[..]).collect();
    let want = model::count_table(&seqs, c.k);
    let cfg = CtrCfg { k: c.k, threads: c.threads, mem_gb: mem_for_limit(target_limit(&c.recs, c.chunks)), acgt: false };
    v.nontrivial = c.recs.len() >= 3 && want.values().any(|&x| x >= 2);
    v.class(format!("enum-T{}-N{}", c.threads, c.recs.len()));
    let mut failure: Option<Verdict> = None;
    let mut i = 0usize;
    let mut run_one = |choices: &[u8]| -> Option<Vec<usize>> {
        i += 1;
        let outdir = dir.path().join(format!("out{}", i));
        std::fs::create_dir_all(&outdir).unwrap();
        let o = exec(&io::path_str(&input), &outdir, &cfg, &Sched::Controlled(choices.to_vec()));
        let mut vv = Verdict::new();
        verdict_of(&mut vv, &o, &want, c.k, false, &format!("schedule {:?}", choices));
        let _ = std::fs::remove_dir_all(&outdir);
        if vv.failed() {
            failure = Some(vv);
            return None;
        }
        Some(o.report.branching)
    };
    if let Some(only) = &c.only {
        run_one(only);
    } else {
        let (count, complete) = enumerate_schedules(limit, &mut run_one);
        SCHEDULES.with(|s| {
            let (a, b, t) = s.get();
            s.set((a + count as u64, b + complete as u64, t + (!complete) as u64));
        });
    }
    if let Some(f) = failure {
        v.fail = f.fail;
    }
    v
}

pub struct Enum;
impl Leg for Enum {
    type Case = EnumCase;
    const NAME: &'static str = "sched-enum";
    fn strategy(tier: Tier) -> BoxedStrategy<EnumCase> {
        let (tmax, nmax) = tier.pick((3usize, 5usize), (4, 6));
        (2usize..=tmax, prop_oneof![1 => 0usize..=2, 6 => 3usize..=nmax], prop_oneof![3 => 1usize..=4, 1 => gen::k_strategy()], 1usize..=3)
            .prop_flat_map(|(threads, n, k, chunks)| {
                let p = RecParams { max_records: n, scale: k, max_len: 30, degenerate_w: 1, bounds: [k, 0, 0], nuc_only: false };
                gen::records_exact(p, n).prop_map(move |recs| EnumCase { recs, k, threads, chunks, only: None })
            })
            .boxed()
    }
    fn check(c: &EnumCase) -> Verdict {
        check_enum(c, 2000)
    }
}

pub fn run(ctx: &mut Ctx) {
    let n = ctx.share(ctx.tier.pick(2_000, 40_000));
    ctx.run_leg::<Runs>(n, true, 200);
    let n = ctx.share(ctx.tier.pick(64, 1_500));
    ctx.run_leg::<Stress>(n, true, 40);
    let n = ctx.share(ctx.tier.pick(240, 4_800));
    ctx.run_leg::<DupStress>(n, true, 20);
    let n = ctx.share(ctx.tier.pick(48, 800));
    ctx.run_leg::<Large>(n, true, 30);
    let n = ctx.share(ctx.tier.pick(8, 96));
    ctx.run_leg::<Long>(n, true, 6);
    let n = ctx.share(ctx.tier.pick(48, 800));
    ctx.run_leg::<Enum>(n, true, 40);
    let (s, complete, trunc) = SCHEDULES.with(|s| s.get());
    ctx.out.extra.insert("schedules_enumerated".into(), serde_json::json!(s));
    ctx.out.extra.insert("inputs_with_complete_schedule_enumeration".into(), serde_json::json!(complete));
    ctx.out.extra.insert("inputs_with_truncated_schedule_enumeration".into(), serde_json::json!(trunc));
}

pub fn replay(leg: &str, case: &serde_json::Value) -> Option<Result<Verdict, String>> {
    match leg {
        "runs" => Some(crate::engine::replay_leg::<Runs>(case)),
        "contention-stress" => Some(crate::engine::replay_leg::<Stress>(case)),
        "contention-new-keys" => Some(crate::engine::replay_leg::<DupStress>(case)),
        "large-inputs" => Some(crate::engine::replay_leg::<Large>(case)),
        "long-records" => Some(crate::engine::replay_leg::<Long>(case)),
        "sched-enum" => Some(crate::engine::replay_leg::<Enum>(case)),
        _ => None,
    }
}
