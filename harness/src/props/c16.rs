//! C16 — every subcommand ends cleanly with one row per record on degenerate input.
use super::cmd::{run_via_cli, run_via_lib, Cmd, Outcome, Preset, Sub};
use crate::engine::{Ctx, Leg, Tier, Verdict};
use crate::gen::{self, Container, Rec, RecParams};
use crate::io;
use crate::model;
use proptest::prelude::*;
use serde::{Deserialize, Serialize};

#[derive(Clone, Debug, Serialize, Deserialize)]
pub struct Case {
    pub recs: Vec<Rec>,
    pub alt: Vec<Rec>,
    pub cont: Container,
    pub cmd: Cmd,
    pub via_cli: bool,
    /// a record start moved onto a block boundary of the single-line FASTA text
    #[serde(default)]
    pub align: Option<gen::Align>,
    /// a block of identical degenerate records inserted at a record index that is a multiple of the block
    /// size: (kind, block size, at which multiple, records that follow are kept)
    #[serde(default)]
    pub block: Option<(u8, usize, u8)>,
    /// bytes of left-over text at the output location before the run (a file, or kmers.counts / kmers.vectors in
    /// the output directory)
    #[serde(default)]
    pub stale: u32,
}

/// the record list as it is written: with the degenerate block and the aligned record start
pub fn materialise(c: &Case) -> Vec<Rec> {
    let mut recs = c.recs.clone();
    if let Some((kind, size, mult)) = c.block {
        let scale = match c.cmd.sub { Sub::Min => (if c.cmd.w == 0 { c.cmd.m } else { c.cmd.w }) as usize, Sub::Cgr => 4, _ => c.cmd.k as usize }.max(1);
        let seq: Vec<u8> = match kind % 4 {
            0 => Vec::new(),
            1 => b"ACGTTGCAAGGCTTAACCGGTTACGATCGATCGGCTAGGC"[..(scale - 1).min(40)].to_vec(),
            2 => if c.cmd.sub == Sub::Cgr { Vec::new() } else { vec![b'N'; scale + 1] },
            _ => b"A".to_vec(),
        };
        // pad the list with ordinary records up to the multiple, insert the block, keep the rest behind it
        let at = (mult as usize % 3) * size;
        let mut out: Vec<Rec> = Vec::with_capacity(at + size + recs.len());
        let filler = recs.first().cloned().unwrap_or(Rec { id: "f".into(), desc: None, seq: crate::util::Bytes(b"ACGTTGCAAGGCTTAACCGGTTACGATCGATCGGCTAGGCACGT".to_vec()) });
        let (head, tail) = recs.split_at(recs.len().min(at).min(recs.len() / 2));
        out.extend_from_slice(head);
        let mut i = 0;
        while out.len() < at {
            out.push(Rec { id: format!("fill{}", i), desc: None, seq: filler.seq.clone() });
            i += 1;
        }
        for j in 0..size {
            out.push(Rec { id: format!("blk{}", j), desc: None, seq: crate::util::Bytes(seq.clone()) });
        }
        if mult >= 3 {
            // the block ends the input: everything else goes in front of it (the start index stays a multiple)
            let mut front: Vec<Rec> = tail.to_vec();
            front.extend(out.drain(..at));
            front.truncate(at);
            while front.len() < at {
                front.push(Rec { id: format!("pre{}", front.len()), desc: None, seq: filler.seq.clone() });
            }
            front.extend(out);
            out = front;
        } else {
            out.extend_from_slice(tail);
            if tail.is_empty() {
                out.push(Rec { id: "after_block".into(), desc: None, seq: filler.seq.clone() });
            }
        }
        recs = out;
    }
    if let Some(a) = &c.align {
        let _ = gen::align_records(&mut recs, a);
    }
    recs
}

fn norm_text(s: &[u8]) -> Vec<u8> {
    s.iter().map(|b| match b.to_ascii_uppercase() { b'U' => b'T', o => o }).collect()
}

fn contains(hay: &[u8], needle: &[u8]) -> bool {
    !needle.is_empty() && hay.windows(needle.len()).any(|w| w == needle)
}

/// validity of one (text, start, end) against its record
fn check_run(rec: &Rec, text: &str, s: usize, e: usize, w: usize, m: usize) -> Result<(), (String, String)> {
    let len = rec.seq.0.len();
    let weff = if w == 0 { len } else { w };
    if text.len() != m || !text.bytes().all(|b| b"ACGT".contains(&b)) {
        return Err(("bad-minimiser-text".into(), format!("{:?} is not {} letters over ACGT", text, m)));
    }
    if s > e || e > len {
        return Err(("run-outside-record".into(), format!("run {}-{} outside a record of {} bases", s, e, len)));
    }
    if e - s < weff.max(m) {
        return Err(("placeholder-written".into(), format!("run {}:{}-{} of record {:?} ({} bases) is shorter than the window ({}): nothing can be computed there", text, s, e, rec.id, len, weff)));
    }
    let seg = &rec.seq.0[s..e];
    if seg.iter().any(|&b| !model::is_base(b)) {
        return Err(("run-over-ambiguous".into(), format!("run {}-{} of record {:?} covers a non-nucleotide byte", s, e, rec.id)));
    }
    let segn = norm_text(seg);
    let rc = model::revcomp_text(text.as_bytes());
    if !contains(&segn, text.as_bytes()) && !contains(&segn, &rc) {
        return Err(("placeholder-written".into(), format!("minimiser {} (or its reverse complement) does not occur in {:?}[{}..{}]", text, rec.id, s, e)));
    }
    Ok(())
}

fn rows_ok(data: &[u8], n: usize, parse: impl Fn(&str) -> Result<usize, String>, width: Option<usize>, header: bool) -> Result<(), (String, String)> {
    let lines = io::lines_strict(data).map_err(|e| ("malformed-output".to_string(), e))?;
    let body = if header {
        if lines.is_empty() {
            return Err(("header-missing".into(), "header requested but the output is empty".into()));
        }
        &lines[1..]
    } else {
        &lines[..]
    };
    if body.len() != n {
        return Err(("row-count".into(), format!("{} rows for {} records", body.len(), n)));
    }
    for (i, l) in body.iter().enumerate() {
        let wd = parse(l).map_err(|e| ("malformed-row".to_string(), format!("row {}: {}", i, e)))?;
        if let Some(w) = width {
            if wd != w {
                return Err(("row-width".into(), format!("row {}: {} values, expected {}", i, wd, w)));
            }
        }
    }
    Ok(())
}

/// rows of records without any valid k-mer window must be all-zero (`vals` = the numeric values of one row)
fn zero_row_where_nothing(recs: &[Rec], k: usize, rows: &[Vec<f64>]) -> Result<(), (String, String)> {
    for (i, (r, row)) in recs.iter().zip(rows.iter()).enumerate() {
        if model::windows(&r.seq, k).is_empty() && row.iter().any(|&x| x != 0.0) {
            return Err((
                "nonzero-row-for-record-without-kmers".into(),
                format!("record {} ({:?}, {} bytes) has no valid {}-mer window but its row is not all-zero", i, r.id, r.seq.0.len(), k),
            ));
        }
    }
    Ok(())
}

pub fn validate(c: &Case, o: &Outcome) -> Result<(), (String, String)> {
    let cmd = &c.cmd;
    let n = c.recs.len();
    let has_foreign = c.recs.iter().any(|r| r.seq.0.iter().any(|&b| !model::is_base(b)));
    if cmd.sub == Sub::Cgr && has_foreign {
        // whole-sequence CGR may refuse such input; nothing further is required
        return if o.timed_out { Err(("hang".into(), "timed out".into())) } else { Ok(()) };
    }
    if !o.clean() {
        let sig = if o.panic.is_some() { "panic" } else if o.timed_out { "hang" } else { "unclean-exit" };
        return Err((format!("{}-{:?}", sig, cmd.sub), o.describe()));
    }
    let main = cmd.result_files()[0];
    let data = o.files.get(main).ok_or_else(|| ("no-output".to_string(), format!("result file {:?} was not written", main)))?;
    match cmd.sub {
        Sub::Oligo => {
            let kc = model::closed_form_count(cmd.k as usize) as usize;
            let d = cmd.preset.delim();
            rows_ok(data, n, |l| io::parse_row(l, d).map(|r| r.len()), Some(kc), cmd.header)?;
            let lines = io::lines_strict(data).unwrap();
            let body = if cmd.header { &lines[1..] } else { &lines[..] };
            let rows: Vec<Vec<f64>> = body.iter().map(|l| io::parse_row(l, d).unwrap()).collect();
            zero_row_where_nothing(&c.recs, cmd.k as usize, &rows)
        }
        Sub::Cgr => {
            let lines = io::lines_strict(data).map_err(|e| ("malformed-output".to_string(), e))?;
            if lines.len() != n {
                return Err(("row-count".into(), format!("{} rows for {} records", lines.len(), n)));
            }
            for (i, (l, r)) in lines.iter().zip(c.recs.iter()).enumerate() {
                let t = io::parse_tuples(l, 2).map_err(|e| ("malformed-row".to_string(), format!("row {}: {}", i, e)))?;
                if t.len() != r.seq.0.len() {
                    return Err(("row-width".into(), format!("row {}: {} points for {} bases", i, t.len(), r.seq.0.len())));
                }
            }
            Ok(())
        }
        Sub::KCgr => {
            let kc = model::closed_form_count(cmd.k as usize) as usize;
            rows_ok(data, n, |l| io::parse_tuples(l, 3).map(|r| r.len()), Some(kc), false)?;
            let rows: Vec<Vec<f64>> = io::lines_strict(data).unwrap().iter().map(|l| io::parse_tuples(l, 3).unwrap().iter().map(|t| t[2]).collect()).collect();
            zero_row_where_nothing(&c.recs, cmd.k as usize, &rows)
        }
        Sub::Cov => {
            let d = cmd.preset.delim();
            rows_ok(data, n, |l| io::parse_row(l, d).map(|r| r.len()), Some(cmd.bin_count as usize), false)?;
            let kc = o.files.get("kmers.counts").ok_or_else(|| ("no-output".to_string(), "kmers.counts missing".to_string()))?;
            io::parse_counts(kc).map_err(|e| ("malformed-counts".to_string(), e))?;
            let rows: Vec<Vec<f64>> = io::lines_strict(data).unwrap().iter().map(|l| io::parse_row(l, d).unwrap()).collect();
            zero_row_where_nothing(&c.recs, cmd.k as usize, &rows)
        }
        Sub::Ctr => {
            let lines = io::parse_counts(data).map_err(|e| ("malformed-counts".to_string(), e))?;
            if !lines.is_empty() && c.recs.iter().all(|r| model::windows(&r.seq, cmd.k as usize).is_empty()) {
                return Err(("kmers-counted-where-none-exist".into(), format!("no record holds a valid {}-mer, yet {} k-mers are listed (first {:?})", cmd.k, lines.len(), lines[0])));
            }
            for (k, cnt) in lines {
                if cnt == 0 {
                    return Err(("zero-count-line".into(), format!("k-mer {} listed with count 0", k)));
                }
                if cmd.acgt {
                    if k.len() != cmd.k as usize || model::encode(k.as_bytes()).is_none() {
                        return Err(("bad-kmer-text".into(), format!("{:?}", k)));
                    }
                } else {
                    let x: u64 = k.parse().map_err(|_| ("malformed-counts".to_string(), format!("{:?}", k)))?;
                    if x >= model::pow4(cmd.k as usize) {
                        return Err(("placeholder-written".into(), format!("k-mer code {} >= 4^{}", x, cmd.k)));
                    }
                }
            }
            Ok(())
        }
        Sub::Min => {
            let (w, m) = (cmd.w as usize, cmd.m as usize);
            let by_id: std::collections::HashMap<&str, &Rec> = c.recs.iter().map(|r| (r.id.as_str(), r)).collect();
            let lines = io::lines_strict(data).map_err(|e| ("malformed-output".to_string(), e))?;
            if cmd.m2s {
                for l in &lines {
                    let (text, list) = io::parse_m2s_line(l).map_err(|e| ("malformed-row".to_string(), e))?;
                    if list.is_empty() {
                        return Err(("empty-m2s-line".into(), format!("minimiser {} lists no record", text)));
                    }
                    for (id, s, e) in list {
                        let rec = by_id.get(id.as_str()).ok_or_else(|| ("unknown-id".to_string(), format!("{:?}", id)))?;
                        check_run(rec, &text, s, e, w, m)?;
                    }
                }
            } else {
                if lines.len() != n {
                    return Err(("row-count".into(), format!("{} lines for {} records", lines.len(), n)));
                }
                for l in &lines {
                    let (id, runs) = io::parse_s2m_line(l).map_err(|e| ("malformed-row".to_string(), e))?;
                    let rec = by_id.get(id.as_str()).ok_or_else(|| ("unknown-id".to_string(), format!("{:?}", id)))?;
                    for (text, s, e) in runs {
                        check_run(rec, &text, s, e, w, m)?;
                    }
                }
            }
            Ok(())
        }
    }
}

pub fn check_case(c0: &Case) -> Verdict {
    let mut v = Verdict::new();
    let c = &Case { recs: materialise(c0), align: None, block: None, ..c0.clone() };
    if let Some((kind, size, _)) = c0.block {
        v.class(format!("block-of-{}-{}-records", size, ["empty", "shorter-than-scale", "all-N", "one-base"][kind as usize % 4]));
        v.class_if(c0.block.map(|b| b.2 >= 3).unwrap_or(false), "block-ends-the-input");
    }
    v.class_if(c0.align.is_some(), "record-start-on-a-block-boundary");
    let cmd = &c.cmd;
    let (k, m, w) = (cmd.k as usize, cmd.m as usize, cmd.w as usize);
    let scale = match cmd.sub {
        Sub::Min => if w == 0 { m } else { w },
        Sub::Cgr => 1,
        _ => k,
    };
    let shapes = c.recs.is_empty()
        || c.recs.iter().any(|r| {
            let l = r.seq.0.len();
            l == 0 || l + 1 == scale || l == scale || l == 1 || (l > 0 && r.seq.0.iter().all(|&b| !model::is_base(b))) || r.seq.0.first().map(|&b| !model::is_base(b)).unwrap_or(false) || r.seq.0.last().map(|&b| !model::is_base(b)).unwrap_or(false)
        });
    v.nontrivial = shapes;
    v.class(format!("{:?}-{}", cmd.sub, if c.via_cli { "cli" } else { "lib" }));
    v.class_if(c.recs.is_empty(), "zero-records");
    v.class_if(!c.recs.is_empty() && c.recs.iter().all(|r| r.seq.0.is_empty()), "all-empty");
    v.class_if(!c.recs.is_empty() && c.recs.iter().all(|r| !r.seq.0.is_empty() && r.seq.0.iter().all(|&b| !model::is_base(b))), "all-ambiguous");
    v.class_if(c.recs.iter().any(|r| !r.seq.0.is_empty() && r.seq.0.len() < scale), "shorter-than-scale");
    v.class_if(c.recs.iter().any(|r| r.seq.0.iter().any(|&b| b >= 0x80)), "utf8-two-byte-characters");
    if cmd.sub == Sub::Min {
        v.class(if w == 0 { "min-w0" } else { "min-w>0" });
    }
    if cmd.sub == Sub::Oligo {
        v.class(if cmd.counts || cmd.stdin { "oligo-batch-writer" } else { "oligo-mmap-writer" });
    }
    v.class(if cmd.threads == 1 { "threads=1" } else { "threads-many" });
    let dir = crate::scratch_dir();
    let cont = if cmd.stdin { Container { gz: None, ..c.cont.clone() } } else { c.cont.clone() };
    let input = io::write_input(dir.path(), "in", &c.recs, &cont);
    let altp = io::write_input(dir.path(), "alt", &c.alt, &Container::plain_fasta());
    let out = dir.path().join("out");
    if c.stale > 0 {
        io::set_stale(c.stale as usize);
        if cmd.out_is_dir() {
            std::fs::create_dir_all(&out).unwrap();
            io::plant_stale(&out.join("kmers.vectors"));
            if c.stale % 2 == 0 {
                io::plant_stale(&out.join("kmers.counts"));
            }
        } else {
            io::plant_stale(&out);
        }
        io::set_stale(0);
        v.class("output-location-holds-an-earlier-result");
    }
    let o = if c.via_cli {
        let data = std::fs::read(&input).unwrap();
        run_via_cli(cmd, &input, Some(&altp), &out, Some(&data))
    } else {
        run_via_lib(cmd, &input, Some(&altp), &out)
    };
    if o.timed_out {
        // a watchdog hit is reported as inconclusive by run(), never as a violation
        v.class("cli-timeout");
        return v;
    }
    if let Err((s, msg)) = validate(c, &o) {
        v.fail(s, format!("{:?} via {}: {}", cmd.args("IN", Some("ALT"), "OUT"), if c.via_cli { "executable" } else { "library" }, msg));
    }
    v
}

fn threads2() -> BoxedStrategy<usize> {
    prop_oneof![2 => Just(1usize), 1 => Just(2usize), 1 => Just(16usize), 1 => 2usize..=16].boxed()
}

fn preset() -> BoxedStrategy<Preset> {
    prop::sample::select(vec![Preset::Csv, Preset::Tsv, Preset::Spc]).boxed()
}

/// commands with accepted options; `cli` restricts parameters to the ranges the executable accepts
pub fn cmd_strategy(cli: bool) -> BoxedStrategy<Cmd> {
    let ok = if cli { 3u64..=7 } else { 1u64..=7 };
    let oligo = (ok.clone(), any::<bool>(), preset(), any::<bool>(), threads2(), prop::bool::weighted(if cli { 0.2 } else { 0.0 }))
        .prop_map(|(k, counts, p, header, t, stdin)| Cmd { k, counts, preset: p, header, threads: t, stdin, ..Cmd::base(Sub::Oligo) });
    let cgr = (prop_oneof![1 => Just(None), 2 => (1u64..=4096).prop_map(Some)], threads2()).prop_map(|(vs, t)| Cmd { vec_size: vs, threads: t, ..Cmd::base(Sub::Cgr) });
    let kcgr = (if cli { 3u64..=6 } else { 1u64..=6 }, any::<bool>(), prop_oneof![1 => Just(None), 2 => (1u64..=4096).prop_map(Some)], threads2())
        .prop_map(|(k, counts, vs, t)| Cmd { k, counts, vec_size: vs, threads: t, ..Cmd::base(Sub::KCgr) });
    let (ck, bs) = if cli { (7u64..=31, 5u64..=9) } else { (1u64..=31, 1u64..=9) };
    let cov = (ck, preset(), bs.clone(), bs, any::<bool>(), any::<bool>(), threads2(), prop_oneof![Just(None), Just(Some(0.5)), Just(Some(1.0))])
        .prop_map(move |(k, p, s, c, counts, alt, t, lm)| Cmd { k, preset: p, bin_size: s, bin_count: c, counts, alt, threads: t, lib_mem_gb: if cli { None } else { lm }, ..Cmd::base(Sub::Cov) });
    let mm = if cli { 7u64..=28 } else { 1u64..=28 };
    let min = (mm, prop_oneof![2 => Just(0u64), 3 => 1u64..=12], any::<bool>(), threads2()).prop_map(|(m, d, m2s, t)| Cmd { m, w: if d == 0 { 0 } else { m + d }, m2s, threads: t, ..Cmd::base(Sub::Min) });
    let tk = if cli { 10u64..=31 } else { 1u64..=31 };
    let ctr = (tk, any::<bool>(), threads2()).prop_map(|(k, acgt, t)| Cmd { k, acgt, threads: t, ..Cmd::base(Sub::Ctr) });
    prop_oneof![4 => oligo, 2 => cgr, 2 => kcgr, 3 => cov, 4 => min, 2 => ctr].boxed()
}

fn case_strategy(tier: Tier, cli: bool) -> BoxedStrategy<Case> {
    cmd_strategy(cli)
        .prop_flat_map(move |cmd| {
            let (k, m, w) = (cmd.k as usize, cmd.m as usize, cmd.w as usize);
            let bounds = match cmd.sub {
                Sub::Min => [m, w, 0],
                Sub::Cgr => [1, 2, 0],
                _ => [k, 0, 0],
            };
            let p = RecParams { max_records: tier.pick(8, 20), scale: bounds[0].max(1), max_len: 90, degenerate_w: 7, bounds, nuc_only: false };
            (gen::records_in_container(p), gen::records(p), prop_oneof![6 => Just(None), 1 => (any::<u16>(), gen::utf8_seq(40)).prop_map(Some)], prop_oneof![1 => Just(0u8), 1 => 0u8..128]).prop_map(move |((mut recs, mut cont), alt, utf8, envp)| {
                // one record made of (or mixed with) two-byte UTF-8 characters: ambiguous bytes >= 0x80;
                // only on unwrapped lines, and not for whole-sequence CGR cases that must stay nucleotide-only
                if let Some((i, s)) = utf8 {
                    if !recs.is_empty() && !(cont.is_fastq() && s.is_empty()) {
                        let idx = crate::util::idx16(i, recs.len());
                        recs[idx].seq = crate::util::Bytes(s);
                        match &mut cont.format {
                            crate::gen::Format::Fasta { wrap } => *wrap = None,
                            crate::gen::Format::Fastq { wrap, .. } => *wrap = None,
                        }
                    }
                }
                let mut cmd = cmd.clone();
                cmd.env_profile = if cli { envp } else { 0 };
                Case { recs, alt, cont, cmd, via_cli: cli, align: None, block: None, stale: if envp % 4 == 1 { 1 + (envp as u32) * 997 } else { 0 } }
            })
        })
        .boxed()
}

pub struct CliLeg;
impl Leg for CliLeg {
    type Case = Case;
    const NAME: &'static str = "executable";
    fn strategy(tier: Tier) -> BoxedStrategy<Case> {
        case_strategy(tier, true)
    }
    fn check(c: &Case) -> Verdict {
        check_case(c)
    }
}

pub struct LibLeg;
impl Leg for LibLeg {
    type Case = Case;
    const NAME: &'static str = "library";
    fn strategy(tier: Tier) -> BoxedStrategy<Case> {
        case_strategy(tier, false)
    }
    fn check(c: &Case) -> Verdict {
        check_case(c)
    }
}

/// many degenerate records in a row (blocks of 64 ... 4096 identical empty / too short / all-N / one-base
/// records starting at a record index that is a multiple of the block size) and record starts on block
/// boundaries of the text (4 KiB ... 2 MiB): batch-by-count and scan-by-block code paths
pub struct Blocks;
impl Leg for Blocks {
    type Case = Case;
    const NAME: &'static str = "blocks-and-boundaries";
    fn strategy(tier: Tier) -> BoxedStrategy<Case> {
        let sizes = vec![64usize, 100, 128, 255, 256, 257, 500, 512, 999, 1000, 1001, 1024, 2000, 2048, 4096];
        (any::<bool>(), prop_oneof![1 => case_strategy(tier, true), 2 => case_strategy(tier, false)], 0u8..4, prop::sample::select(sizes), 0u8..6, gen::align_strategy(2 << 20))
            .prop_map(|(blk, mut c, kind, size, mult, align)| {
                c.cont = Container::plain_fasta();
                if c.recs.iter().any(|r| r.seq.0.iter().any(|&b| b >= 0x80)) {
                    // keep the text ASCII: the aligned offsets are computed on it
                    for r in c.recs.iter_mut() {
                        r.seq.0.retain(|&b| b < 0x80);
                    }
                }
                if blk {
                    c.block = Some((kind, size, mult));
                } else {
                    let align = if c.cmd.sub == Sub::Cgr { gen::Align { target: align.target.min(65536), ..align } } else { align };
                    c.align = Some(align);
                    if c.recs.len() < 2 {
                        c.recs.push(Rec { id: "a1".into(), desc: None, seq: crate::util::Bytes(b"ACGTTGCAAGGCTTAACCGGTTACGATCGATCGGCTAGGCACGT".to_vec()) });
                        c.recs.push(Rec { id: "a2".into(), desc: None, seq: crate::util::Bytes(b"TTGACCAGTAGGCTAGCTAGGATCGAACGTTGCAAGG".to_vec()) });
                    }
                }
                c
            })
            .boxed()
    }
    fn check(c: &Case) -> Verdict {
        check_case(c)
    }
}

pub fn run(ctx: &mut Ctx) {
    let n = ctx.share(ctx.tier.pick(240, 4_800));
    ctx.run_leg::<Blocks>(n, true, 40);

    let n = ctx.share(ctx.tier.pick(4_000, 60_000));
    ctx.run_leg::<CliLeg>(n, false, 120);
    let n = ctx.share(ctx.tier.pick(12_000, 200_000));
    ctx.run_leg::<LibLeg>(n, true, 200);
    super::timeouts_inconclusive(ctx);
}

pub fn replay(leg: &str, case: &serde_json::Value) -> Option<Result<Verdict, String>> {
    match leg {
        "executable" => Some(crate::engine::replay_leg::<CliLeg>(case)),
        "library" => Some(crate::engine::replay_leg::<LibLeg>(case)),
        "blocks-and-boundaries" => Some(crate::engine::replay_leg::<Blocks>(case)),
        _ => None,
    }
}
