//! C13 — Python bindings compute exactly what the Rust core computes.
//! The Hypothesis suite (py/c13.py, run with python3-vt) asks this binary's `oracle-server`
//! what the *core* computes for the same bytes.
use crate::engine::{Ctx, Fail, Verdict};
use composition::cgr::CgrComputer;
use composition::oligo::OligoComputer;
use kmer::kmer::KmerGenerator;
use kmer::minimiser::MinimiserGenerator;
use serde_json::{json, Value};
use std::io::{BufRead, Write};
use std::process::{Command, Stdio};

fn unhex(s: &str) -> Vec<u8> {
    (0..s.len() / 2).map(|i| u8::from_str_radix(&s[2 * i..2 * i + 2], 16).unwrap()).collect()
}

pub fn oracle_server() {
    let stdin = std::io::stdin();
    let stdout = std::io::stdout();
    let mut out = stdout.lock();
    let mut oligo: std::collections::HashMap<(usize, bool), OligoComputer> = Default::default();
    for line in stdin.lock().lines() {
        let line = match line {
            Ok(l) => l,
            Err(_) => break,
        };
        if line.trim().is_empty() {
            continue;
        }
        let req: Value = match serde_json::from_str(&line) {
            Ok(v) => v,
            Err(e) => {
                writeln!(out, "{}", json!({"fatal": e.to_string()})).unwrap();
                continue;
            }
        };
        let seq = req["seq"].as_str().map(unhex).unwrap_or_default();
        let resp = std::panic::catch_unwind(std::panic::AssertUnwindSafe(|| match req["op"].as_str().unwrap_or("") {
            "kmers" => {
                let k = req["k"].as_u64().unwrap() as usize;
                json!({"ok": KmerGenerator::new(&seq, k).map(|(f, r)| json!([f, r])).collect::<Vec<_>>()})
            }
            "kmers_count" => {
                let k = req["k"].as_u64().unwrap() as usize;
                json!({"ok": KmerGenerator::new(&seq, k).count()})
            }
            "kmers_digest" => {
                // count and position-sensitive digest of the item list (long strings)
                let k = req["k"].as_u64().unwrap() as usize;
                let (mut n, mut h) = (0u64, 0u64);
                for (f, r) in KmerGenerator::new(&seq, k) {
                    h = h.wrapping_mul(1000003).wrapping_add(f.wrapping_mul(31)).wrapping_add(r);
                    n += 1;
                }
                json!({"ok": [n, h.to_string()]})
            }
            "mins" => {
                let (w, m) = (req["w"].as_u64().unwrap() as usize, req["m"].as_u64().unwrap() as usize);
                json!({"ok": MinimiserGenerator::new(&seq, w, m).map(|(v, s, e)| json!([v, s, e])).collect::<Vec<_>>()})
            }
            "acgt" => {
                let k = req["k"].as_u64().unwrap() as usize;
                json!({"ok": kmer::numeric_to_kmer(req["x"].as_u64().unwrap(), k)})
            }
            "oligo" => {
                let k = req["k"].as_u64().unwrap() as usize;
                let norm = req["norm"].as_bool().unwrap();
                let oc = oligo.entry((k, norm)).or_insert_with(|| {
                    let mut oc = OligoComputer::new("unused.fa".into(), "unused.out".into(), k);
                    oc.set_norm(norm);
                    oc
                });
                json!({"ok": oc.verif_vectorise_one(&seq)})
            }
            "header" => {
                let k = req["k"].as_u64().unwrap() as usize;
                let oc = OligoComputer::new("unused.fa".into(), "unused.out".into(), k);
                json!({"ok": oc.verif_get_header()})
            }
            "cgr" => {
                let s = req["s"].as_u64().unwrap() as usize;
                let cc = CgrComputer::new("unused.fa".into(), "unused.out".into(), s);
                match cc.verif_vectorise_one(&seq) {
                    Ok(p) => json!({"ok": p.iter().map(|q| json!([q.0, q.1])).collect::<Vec<_>>()}),
                    Err(e) => json!({"err": e}),
                }
            }
            o => json!({"fatal": format!("unknown op {}", o)}),
        }));
        let resp = resp.unwrap_or_else(|_| json!({"panic": true}));
        writeln!(out, "{}", resp).unwrap();
        out.flush().unwrap();
    }
}

fn python_cmd() -> Command {
    let mut c = Command::new("python3-vt");
    c.arg(format!("{}/py/c13.py", crate::verif_root()));
    c.env("VERIF_VH", std::env::current_exe().unwrap());
    c.env("VERIF_PYDIR", std::env::var("VERIF_PYDIR").unwrap_or_else(|_| format!("{}/.build/py", crate::verif_root())));
    c.env("PYTHONDONTWRITEBYTECODE", "1");
    c
}

pub fn run(ctx: &mut Ctx) {
    let examples = ctx.share(ctx.tier.pick(16_000, 400_000));
    let out = ctx.workdir.join("py_out.json");
    let journal = ctx.workdir.join("current.json");
    // the extension's global pool reads RAYON_NUM_THREADS at first use: the shards run with different pool sizes
    let pool = ["", "1", "2", "3", "", "5", "7", ""][ctx.shard % 8];
    let mut pc = python_cmd();
    if !pool.is_empty() {
        pc.env("RAYON_NUM_THREADS", pool);
    }
    ctx.out.classes.insert(format!("python-pool-size-{}", if pool.is_empty() { "default" } else { pool }), 1);
    let st = pc
        .args(["--seed", &ctx.seed.to_string(), "--shard", &ctx.shard.to_string(), "--examples", &examples.to_string()])
        .arg("--out")
        .arg(&out)
        .arg("--journal")
        .arg(&journal)
        .stdin(Stdio::null())
        .status();
    let parsed: Option<Value> = std::fs::read(&out).ok().and_then(|b| serde_json::from_slice(&b).ok());
    match (st, parsed) {
        (Ok(s), Some(res)) if s.success() => {
            ctx.out.evaluations += res["evaluations"].as_u64().unwrap_or(0);
            if let Some(h) = res["nontrivial_hashes"].as_array() {
                for x in h {
                    ctx.add_hash(x.as_u64().unwrap_or(0));
                }
            }
            if let Some(m) = res["classes"].as_object() {
                for (k, v) in m {
                    *ctx.out.classes.entry(k.clone()).or_insert(0) += v.as_u64().unwrap_or(0);
                }
            }
            if let Some(m) = res["legs"].as_object() {
                for (k, v) in m {
                    let e = ctx.out.legs.entry(k.clone()).or_default();
                    e.evaluations += v["evaluations"].as_u64().unwrap_or(0);
                    e.nontrivial += v["nontrivial"].as_u64().unwrap_or(0);
                    e.wall_s += v["wall_s"].as_f64().unwrap_or(0.0);
                }
            }
            if let Some(s) = res["samples"].as_array() {
                ctx.out.samples.extend(s.iter().take(6).cloned());
            }
            if let Some(f) = res["failures"].as_array() {
                for x in f {
                    let fail = Fail { sig: x["sig"].as_str().unwrap_or("?").to_string(), msg: x["msg"].as_str().unwrap_or("").to_string() };
                    ctx.record_failure(x["leg"].as_str().unwrap_or("?"), &x["case"], &fail);
                }
            }
            if let Some(i) = res["inconclusive"].as_array() {
                for x in i {
                    ctx.out.inconclusive.push(x.as_str().unwrap_or("?").to_string());
                }
            }
        }
        (st, _) => {
            // the interpreter died: the journaled example is the reproduction
            use std::os::unix::process::ExitStatusExt;
            let sig = st.as_ref().ok().and_then(|s| s.signal());
            if let (Some(sig), Ok(j)) = (sig, std::fs::read(&journal)) {
                let j: Value = serde_json::from_slice(&j).unwrap_or(json!({}));
                let fail = Fail { sig: "interpreter-crash".into(), msg: format!("the Python interpreter died with signal {} while running this example", sig) };
                ctx.record_failure(j["leg"].as_str().unwrap_or("?"), &j["case"], &fail);
            } else {
                ctx.out.inconclusive.push(format!("python suite did not complete: status {:?}", st.map(|s| s.code())));
            }
        }
    }
}

pub fn replay(leg: &str, case: &Value) -> Option<Result<Verdict, String>> {
    let dir = crate::scratch_dir();
    let f = dir.path().join("case.json");
    std::fs::write(&f, serde_json::to_vec(&json!({"leg": leg, "case": case})).unwrap()).ok()?;
    let o = python_cmd().arg("--replay").arg(&f).stdin(Stdio::null()).output().ok()?;
    use std::os::unix::process::ExitStatusExt;
    if let Some(sig) = o.status.signal() {
        let mut v = Verdict::new();
        v.fail("interpreter-crash", format!("the Python interpreter died with signal {}", sig));
        return Some(Ok(v));
    }
    let text = String::from_utf8_lossy(&o.stdout).to_string();
    let last = text.lines().last().unwrap_or("");
    let res: Value = match serde_json::from_str(last) {
        Ok(v) => v,
        Err(_) => return Some(Err(format!("python replay gave no verdict: {} {}", text, String::from_utf8_lossy(&o.stderr)))),
    };
    let mut v = Verdict::new();
    if let Some(sig) = res["sig"].as_str() {
        v.fail(sig, res["msg"].as_str().unwrap_or(""));
    }
    Some(Ok(v))
}
