//! C17 — outputs depend only on input and options, not on what is already on disk.
use super::c07::{mem_for_limit, target_limit};
use super::cmd::{run_via_cli, run_via_lib, same_results, Cmd, Outcome, Sub};
use crate::engine::{Ctx, Leg, Tier, Verdict};
use crate::gen::{self, Container, Rec, RecParams};
use crate::io;
use proptest::prelude::*;
use serde::{Deserialize, Serialize};

#[derive(Clone, Debug, Serialize, Deserialize)]
pub struct Step {
    pub cmd: Cmd,
    pub recs: Vec<Rec>,
    pub alt: Vec<Rec>,
    pub via_cli: bool,
    /// library runs of ctr/cov: memory ceiling derived from the input for about this many chunks
    pub chunks: Option<usize>,
    /// which input path the step reads (steps with the same slot read the same path; the file is rewritten
    /// only when its content changes)
    #[serde(default)]
    pub slot: u8,
    /// when the file of the slot is rewritten, it gets its previous modification time back
    #[serde(default)]
    pub keep_mtime: bool,
    /// when > 0 (and there are records): the input holds exactly this many records, the generated ones repeated
    /// in a cycle under distinct names (round record counts: 1000, 1024, 2000 ...; kept compact in the case)
    #[serde(default)]
    pub repeat_to: usize,
}

impl Step {
    fn input_recs(&self) -> Vec<Rec> {
        if self.repeat_to == 0 || self.recs.is_empty() {
            return self.recs.clone();
        }
        (0..self.repeat_to)
            .map(|i| {
                let r = &self.recs[i % self.recs.len()];
                Rec { id: format!("{}_{}", r.id, i), desc: r.desc.clone(), seq: r.seq.clone() }
            })
            .collect()
    }
}

/// write `data` to `p` unless it already holds exactly that; optionally keep the modification time
fn place(p: &std::path::Path, data: &[u8], keep_mtime: bool) {
    match std::fs::read(p) {
        Ok(old) if old == data => {}
        Ok(_) => {
            let mtime = std::fs::metadata(p).and_then(|m| m.modified()).ok();
            std::fs::write(p, data).unwrap();
            if let (true, Some(t)) = (keep_mtime, mtime) {
                let f = std::fs::OpenOptions::new().write(true).open(p).unwrap();
                let _ = f.set_modified(t);
            }
        }
        Err(_) => std::fs::write(p, data).unwrap(),
    }
}

#[derive(Clone, Debug, Serialize, Deserialize)]
pub struct Case {
    pub steps: Vec<Step>,
}

fn run_step(s: &Step, dir: &std::path::Path, tag: &str, out: &std::path::Path) -> Outcome {
    // the reference run is fresh in every respect: its own copies of the input files, its own output location
    let (input, altp) = if tag == "fresh" { (dir.join("in_fresh_location.fa"), dir.join("alt_fresh_location.fa")) } else { (dir.join(format!("in_slot{}.fa", s.slot)), dir.join(format!("alt_slot{}.fa", s.slot))) };
    let recs = s.input_recs();
    place(&input, &io::serialise(&recs, &Container::plain_fasta()), s.keep_mtime);
    place(&altp, &io::serialise(&s.alt, &Container::plain_fasta()), s.keep_mtime);
    if s.via_cli {
        let data = std::fs::read(&input).unwrap();
        run_via_cli(&s.cmd, &input, Some(&altp), out, Some(&data))
    } else {
        let mut cmd = s.cmd.clone();
        if let Some(c) = s.chunks {
            let counting = if cmd.alt { &s.alt } else { &recs };
            cmd.lib_mem_gb = Some(mem_for_limit(target_limit(counting, c)));
        }
        run_via_lib(&cmd, &input, Some(&altp), out)
    }
}

fn dir_size(p: &std::path::Path) -> (u64, bool) {
    // (bytes of result-like files, stale temp files present)
    if p.is_file() {
        return (std::fs::metadata(p).map(|m| m.len()).unwrap_or(0), false);
    }
    let mut total = 0;
    let mut temps = false;
    if let Ok(rd) = std::fs::read_dir(p) {
        for e in rd.filter_map(|e| e.ok()) {
            let name = e.file_name().to_string_lossy().to_string();
            if name.starts_with("temp_kmers.") {
                temps = true;
            } else {
                total += e.metadata().map(|m| m.len()).unwrap_or(0);
            }
        }
    }
    (total, temps)
}

pub fn check_case(c: &Case) -> Verdict {
    let mut v = Verdict::new();
    let dir = crate::scratch_dir();
    let shared = dir.path().join("shared_out");
    let fresh = dir.path().join("fresh_out");
    let last = c.steps.last().unwrap();
    v.class(format!("last-{:?}-{}", last.cmd.sub, if last.via_cli { "cli" } else { "lib" }));
    v.class(format!("history-len-{}", c.steps.len()));
    v.class_if(last.repeat_to >= 1000 && !last.recs.is_empty(), "last-run-reads-a-round-number-of-records(>=1000)");
    {
        let scale = match last.cmd.sub { Sub::Min => (if last.cmd.w == 0 { last.cmd.m } else { last.cmd.w }) as usize, Sub::Cgr => 1, _ => last.cmd.k as usize };
        let nothing = last.recs.iter().all(|r| {
            let mut run = 0usize;
            let mut best = 0usize;
            for &b in &r.seq.0 {
                if crate::model::is_base(b) { run += 1; best = best.max(run); } else { run = 0; }
            }
            best < scale.max(1)
        });
        v.class_if(nothing, "last-run-has-nothing-to-compute");
    }
    {
        let n = c.steps.len();
        let same_path_earlier = c.steps[..n - 1].iter().any(|s| s.slot == last.slot);
        v.class_if(same_path_earlier, "input-path-used-before");
        v.class_if(n >= 3 && c.steps[0].slot == last.slot && c.steps[0].recs == last.recs && c.steps[1].slot != last.slot, "sandwich-same-file-untouched");
        v.class_if(c.steps[n - 2].slot == last.slot && c.steps[n - 2].recs != last.recs && io::serialise(&c.steps[n - 2].recs, &Container::plain_fasta()).len() == io::serialise(&last.recs, &Container::plain_fasta()).len(), "input-rewritten-in-place-same-size");
        v.class_if(c.steps[n - 2].slot == last.slot && c.steps[n - 2].recs.len() != last.recs.len() && io::serialise(&c.steps[n - 2].recs, &Container::plain_fasta()).len() == io::serialise(&last.recs, &Container::plain_fasta()).len(), "input-rewritten-same-size-other-record-count");
    }
    let mut before = (0u64, false);
    for (i, s) in c.steps.iter().enumerate() {
        if i + 1 == c.steps.len() {
            before = dir_size(&shared);
        }
        let o = run_step(s, dir.path(), &format!("s{}", i), &shared);
        if o.timed_out {
            v.class("cli-timeout");
            return v;
        }
        if !o.clean() {
            // a failing step is not this property's subject (C16 covers clean termination); the case is skipped
            v.class("step-failed-skipped");
            return v;
        }
        if i + 1 == c.steps.len() {
            let of = run_step(s, dir.path(), "fresh", &fresh);
            if of.timed_out {
                v.class("cli-timeout");
                return v;
            }
            if !of.clean() {
                v.fail("fresh-run-fails-but-rerun-succeeds", format!("the last command fails in a fresh location: {}", of.describe()));
                return v;
            }
            let (after, _) = dir_size(&fresh);
            v.class_if(before.1, "stale-temp-files");
            v.class_if(before.0 > after, "earlier-result-longer");
            v.class_if(before.0 > 0 && before.0 < after, "earlier-result-shorter");
            v.nontrivial = before.1 || before.0 > after;
            if let Err(e) = same_results(&s.cmd, &o, &of) {
                v.fail(
                    format!("depends-on-disk-{:?}", s.cmd.sub),
                    format!(
                        "after {:?} the result of {:?} differs from the same command in a fresh location: {}",
                        c.steps[..i].iter().map(|x| x.cmd.args("IN", Some("ALT"), "OUT").join(" ")).collect::<Vec<_>>(),
                        s.cmd.args("IN", Some("ALT"), "OUT").join(" "),
                        e
                    ),
                );
            }
        }
    }
    v
}

fn step_strategy(tier: Tier, dir_based: bool) -> BoxedStrategy<Step> {
    (super::c16::cmd_strategy(false), prop::bool::weighted(0.4), prop_oneof![Just(None), Just(Some(2usize)), Just(Some(3usize)), Just(Some(6usize))], prop::bool::weighted(0.5))
        .prop_filter_map("kind of output location", move |(cmd, cli, chunks, keep)| {
            if cmd.out_is_dir() != dir_based {
                return None;
            }
            // the executable only accepts its documented ranges
            let in_cli_range = match cmd.sub {
                Sub::Oligo => (3..=7).contains(&cmd.k),
                Sub::KCgr => (3..=7).contains(&cmd.k),
                Sub::Cov => (7..=31).contains(&cmd.k) && cmd.bin_size >= 5 && cmd.bin_count >= 5,
                Sub::Min => (7..=28).contains(&cmd.m),
                Sub::Ctr => (10..=31).contains(&cmd.k),
                Sub::Cgr => true,
            };
            let via_cli = cli && in_cli_range;
            let mut cmd = cmd;
            cmd.stdin = false;
            cmd.lib_mem_gb = None;
            cmd.lib_keep_temps = !via_cli && keep && cmd.sub == Sub::Ctr;
            Some((cmd, via_cli, if via_cli { None } else { chunks }))
        })
        .prop_flat_map(move |(cmd, via_cli, chunks)| {
            let scale = match cmd.sub {
                Sub::Min => (if cmd.w == 0 { cmd.m } else { cmd.w }) as usize,
                Sub::Cgr => 6,
                _ => cmd.k as usize,
            };
            let p = RecParams { max_records: tier.pick(12, 40), scale, max_len: tier.pick(120, 300), degenerate_w: 1, bounds: [scale, 0, 0], nuc_only: cmd.sub == Sub::Cgr };
            // a fifth of the steps read (mostly) degenerate records: a run that has nothing to compute must still
            // replace what an earlier run left at the location
            let pd = RecParams { degenerate_w: 7, max_records: 6, ..p };
            (prop_oneof![5 => gen::records(p), 2 => gen::records_related(p), 2 => gen::records(pd), 1 => Just(Vec::new())], gen::records(p), 0u8..=1, any::<bool>()).prop_map(move |(recs, alt, slot, keep_mtime)| Step { cmd: cmd.clone(), recs, alt, via_cli, chunks, slot, keep_mtime, repeat_to: 0 })
        })
        .boxed()
}

pub struct Histories;
impl Leg for Histories {
    type Case = Case;
    const NAME: &'static str = "histories";
    fn strategy(tier: Tier) -> BoxedStrategy<Case> {
        any::<bool>()
            .prop_flat_map(move |dir_based| {
                (proptest::collection::vec(step_strategy(tier, dir_based), 2..=3), 0u8..29, prop::sample::select(vec![1000usize, 1000, 2000, 1024, 256, 100, 64])).prop_map(|(mut steps, shape, round)| {
                    let n = steps.len();
                    match shape {
                        0..=2 => {
                            // the same command twice
                            let l = steps.last().unwrap().clone();
                            steps[n - 2] = l;
                        }
                        3..=6 => {
                            // sandwich: X, something else on another path, X again (same path, file untouched)
                            let x = steps.last().unwrap().clone();
                            let mut y = steps[0].clone();
                            y.slot = 1 - x.slot;
                            steps = vec![x.clone(), y, x];
                        }
                        7..=15 => {
                            // the input file of the previous step rewritten in place with other records of the
                            // same byte length (every sequence reversed), same command or the generated one
                            let prev = steps[n - 2].clone();
                            // the same command again (shapes 10..) or the generated one; for the same command, half of the
                            // time both runs stay inside this process (state kept in memory between two library calls)
                            let mut l = if shape >= 10 { prev.clone() } else { steps[n - 1].clone() };
                            if shape >= 13 {
                                steps[n - 2].via_cli = false;
                                l.via_cli = false;
                            }
                            l.slot = prev.slot;
                            l.recs = prev.recs.iter().map(|r| Rec { id: r.id.clone(), desc: r.desc.clone(), seq: crate::util::Bytes(r.seq.0.iter().rev().copied().collect()) }).collect();
                            if shape % 2 == 1 && l.recs.len() >= 2 {
                                // same byte size, one record fewer: two neighbours merged, the second header line paid for in bases
                                let size = |r: &Rec| 1 + io::header_line(r).len() + 1 + if r.seq.0.is_empty() { 0 } else { r.seq.0.len() + 1 };
                                let i = (l.recs.len() - 1) / 2;
                                let total = size(&l.recs[i]) + size(&l.recs[i + 1]);
                                let len = total - (io::header_line(&l.recs[i]).len() + 3);
                                let mut seq = l.recs[i].seq.0.clone();
                                seq.extend_from_slice(&l.recs[i + 1].seq.0);
                                while seq.len() < len {
                                    seq.push(b"ACGT"[seq.len() % 4]);
                                }
                                l.recs[i].seq = crate::util::Bytes(seq);
                                l.recs.remove(i + 1);
                            }
                            l.alt = prev.alt.iter().map(|r| Rec { id: r.id.clone(), desc: r.desc.clone(), seq: crate::util::Bytes(r.seq.0.iter().rev().copied().collect()) }).collect();
                            steps[n - 1] = l;
                        }
                        26..=28 => {
                            // round record counts: the last run reads exactly 1000 / 1024 / 2000 ... records, the run
                            // before it (the same command for shape 26) 300 more, so that it leaves longer files
                            let wide = |st: &Step| matches!(st.cmd.sub, Sub::Oligo | Sub::KCgr) && st.cmd.k > 5;
                            if !wide(&steps[n - 1]) {
                                if shape == 26 {
                                    let mut p = steps[n - 1].clone();
                                    p.slot = 1 - p.slot;
                                    steps[n - 2] = p;
                                }
                                steps[n - 1].repeat_to = round;
                                if !wide(&steps[n - 2]) {
                                    steps[n - 2].repeat_to = round + 300;
                                }
                            }
                        }
                        _ => {}
                    }
                    Case { steps }
                })
            })
            .boxed()
    }
    fn check(c: &Case) -> Verdict {
        check_case(c)
    }
}

pub fn run(ctx: &mut Ctx) {
    let n = ctx.share(ctx.tier.pick(4_000, 60_000));
    ctx.run_leg::<Histories>(n, true, 100);
    super::timeouts_inconclusive(ctx);
}

pub fn replay(leg: &str, case: &serde_json::Value) -> Option<Result<Verdict, String>> {
    match leg {
        "histories" => Some(crate::engine::replay_leg::<Histories>(case)),
        _ => None,
    }
}
