//! C08 — coverage histogram rows bin each window by its global k-mer multiplicity.
use super::c07::{mem_for_limit, target_limit};
use crate::engine::{guarded, Ctx, Leg, Tier, Verdict};
use crate::gen::{self, Container, Rec, RecParams};
use crate::io;
use crate::model;
use coverage::CovComputer;
use proptest::prelude::*;
use serde::{Deserialize, Serialize};
use std::path::Path;

#[derive(Clone, Copy, Debug, Serialize, Deserialize, PartialEq)]
pub enum CovMem {
    /// ceiling derived from the counting input so that counting makes about this many chunks
    /// (always < 1 GB: the vectors are flushed per record)
    Chunks(usize),
    /// 0.5 GB: flush per record
    Half,
    /// 1 GB and 6 GB: one flush at the end
    One,
    Six,
}

impl CovMem {
    pub fn gb(self, counting: &[Rec]) -> f64 {
        match self {
            CovMem::Chunks(c) => mem_for_limit(target_limit(counting, c)),
            CovMem::Half => 0.5,
            CovMem::One => 1.0,
            CovMem::Six => 6.0,
        }
    }
}

#[derive(Clone, Debug, Serialize, Deserialize)]
pub struct Case {
    pub recs: Vec<Rec>,
    pub cont: Container,
    pub alt: Option<Vec<Rec>>,
    pub k: usize,
    pub bin_size: usize,
    pub bin_count: usize,
    pub norm: bool,
    pub threads: usize,
    pub mem: CovMem,
    pub delim: String,
    /// (record index, minimum length): that record is repeated to this length (multiplicities beyond 65535)
    #[serde(default)]
    pub stretch: Option<(u16, usize)>,
}

fn materialise(c: &Case) -> Vec<Rec> {
    let mut recs = c.recs.clone();
    if let Some((i, min_len)) = c.stretch {
        if !recs.is_empty() {
            let idx = crate::util::idx16(i, recs.len());
            recs[idx].seq = crate::util::Bytes(super::c01::stretched(&recs[idx].seq, min_len));
        }
    }
    recs
}

pub struct CovOut {
    pub result: Result<(), String>,
    pub vectors: Option<Vec<u8>>,
}

#[allow(clippy::too_many_arguments)]
pub fn exec(input: &str, alt: Option<&str>, outdir: &Path, k: usize, bin_size: usize, bin_count: usize, norm: bool, threads: usize, mem_gb: f64, delim: &str) -> CovOut {
    let od = io::path_str(outdir);
    let result = guarded(|| {
        let mut cov = CovComputer::new(input.to_string(), od.clone(), k, bin_size, bin_count);
        cov.set_threads(threads);
        if let Some(a) = alt {
            cov.set_kmer_path(a.to_string());
        }
        cov.set_norm(norm);
        cov.set_max_memory(mem_gb);
        cov.set_delim(delim.to_string());
        cov.build_table().unwrap();
        cov.compute_coverages();
    });
    CovOut { result, vectors: std::fs::read(outdir.join("kmers.vectors")).ok() }
}

/// compare kmers.vectors with the model
pub fn check_vectors(data: &[u8], recs: &[Rec], counting: &[Rec], k: usize, bin_size: usize, bin_count: usize, norm: bool, delim: &str) -> Result<(bool, bool), (String, String)> {
    let seqs: Vec<&[u8]> = counting.iter().map(|r| &r.seq.0[..]).collect();
    let table = model::count_table(&seqs, k);
    let lines = io::lines_strict(data).map_err(|e| ("malformed-output".to_string(), e))?;
    if lines.len() != recs.len() {
        return Err(("row-count".into(), format!("{} rows for {} records", lines.len(), recs.len())));
    }
    let mut saturated = false;
    let mut multi_bin = false;
    for (i, (line, r)) in lines.iter().zip(recs.iter()).enumerate() {
        let row = io::parse_row(line, delim).map_err(|e| ("malformed-row".to_string(), format!("row {}: {}", i, e)))?;
        if row.len() != bin_count {
            return Err(("row-width".into(), format!("row {}: {} entries, bin count is {}", i, row.len(), bin_count)));
        }
        let (want, total) = model::coverage_row(&r.seq, k, &table, bin_size as u64, bin_count);
        if want.iter().filter(|&&x| x > 0).count() >= 2 {
            multi_bin = true;
        }
        for c in model::canonical_stream(&r.seq, k) {
            let cnt = *table.get(&c).unwrap_or(&0);
            if (cnt / bin_size as u64) as usize > bin_count - 1 {
                saturated = true;
            }
        }
        for (b, (&g, &w)) in row.iter().zip(want.iter()).enumerate() {
            if norm {
                let wv = if total == 0 { 0.0 } else { w as f64 / total as f64 };
                if (g - wv).abs() > 5e-7 + 1e-12 {
                    return Err(("value-norm".into(), format!("row {} bin {}: {} but {}/{} windows fall in this bin", i, b, g, w, total)));
                }
            } else if g != w as f64 {
                return Err(("value-count".into(), format!("row {} bin {}: {} but {} windows fall in this bin (row {:?}, model {:?})", i, b, g, w, row, want)));
            }
        }
    }
    Ok((saturated, multi_bin))
}

pub fn check_case(c0: &Case) -> Verdict {
    let mut v = Verdict::new();
    let c = &Case { recs: materialise(c0), ..c0.clone() };
    v.class_if(c.recs.iter().any(|r| r.seq.0.len() > 65536), "record>65536");
    let dir = crate::scratch_dir();
    let input = io::write_input(dir.path(), "in", &c.recs, &c.cont);
    let alt_path = c.alt.as_ref().map(|a| io::write_input(dir.path(), "alt", a, &Container::plain_fasta()));
    let outdir = dir.path().join("out");
    std::fs::create_dir_all(&outdir).unwrap();
    let counting: &[Rec] = c.alt.as_deref().unwrap_or(&c.recs);
    let mem_gb = c.mem.gb(counting);
    let all_empty = !c.recs.is_empty() && c.recs.iter().all(|r| r.seq.0.is_empty());
    v.class_if(c.alt.is_some(), "alt-input");
    v.class_if(all_empty, "all-empty");
    v.class_if(c.recs.is_empty(), "zero-records");
    v.class(if mem_gb < 1.0 { "flush-per-record" } else { "flush-once" });
    v.class_if(c.bin_count == 1, "bins=1");
    v.class_if(c.bin_size == 1, "binsize=1");
    v.class_if(c.k >= 16, "k>=16");
    v.class(if c.norm { "norm" } else { "counts" });
    let alt_s = alt_path.as_ref().map(|p| io::path_str(p));
    let o = exec(&io::path_str(&input), alt_s.as_deref(), &outdir, c.k, c.bin_size, c.bin_count, c.norm, c.threads, mem_gb, &c.delim);
    if let Err(p) = &o.result {
        v.fail(crate::engine::panic_sig(p), format!("coverage run panicked: {}", p));
        return v;
    }
    let data = match o.vectors {
        Some(d) => d,
        None => {
            v.fail("no-vectors-file", "kmers.vectors does not exist");
            return v;
        }
    };
    match check_vectors(&data, &c.recs, counting, c.k, c.bin_size, c.bin_count, c.norm, &c.delim) {
        Ok((sat, multi)) => {
            v.class_if(sat, "saturated");
            v.nontrivial = c.recs.len() >= 2 && (sat || multi);
        }
        Err((s, m)) => {
            let s = if s == "row-count" && all_empty { "rows-dropped-all-empty".to_string() } else { s };
            v.fail(s, format!("{} [k={}, bin size {}, bin count {}, {} GB, {} threads]", m, c.k, c.bin_size, c.bin_count, mem_gb, c.threads));
        }
    }
    v
}

pub struct Runs;
impl Leg for Runs {
    type Case = Case;
    const NAME: &'static str = "runs";
    fn strategy(tier: Tier) -> BoxedStrategy<Case> {
        let bins = || prop_oneof![6 => 1usize..=8, 1 => Just(16usize), 1 => Just(1000usize)];
        let binc = prop_oneof![6 => 1usize..=8, 1 => Just(16usize)];
        let mem = prop_oneof![
            3 => prop::sample::select(vec![1usize, 2, 3, 5]).prop_map(CovMem::Chunks),
            1 => Just(CovMem::Half), 2 => Just(CovMem::One), 2 => Just(CovMem::Six),
        ];
        (
            prop_oneof![3 => 1usize..=6, 2 => gen::k_strategy()],
            bins(),
            binc,
            any::<bool>(),
            gen::threads_strategy(),
            mem,
            prop::sample::select(vec![" ", ",", "\t"]),
            prop::bool::weighted(0.35),
        )
            .prop_flat_map(move |(k, bin_size, bin_count, norm, threads, mem, delim, with_alt)| {
                let p = RecParams { max_records: tier.pick(30, 150), scale: k, max_len: tier.pick(150, 400), degenerate_w: 2, bounds: [k, 0, 0], nuc_only: false };
                let alt = if with_alt {
                    (gen::records(p), any::<u16>()).prop_map(|(a, share)| Some((a, share))).boxed()
                } else {
                    Just(None).boxed()
                };
                (gen::records_mixed_in_container(p), alt, prop_oneof![60 => Just(None), 2 => (any::<u16>(), Just(3_000usize)).prop_map(Some), 1 => (any::<u16>(), Just(140_000usize)).prop_map(Some)]).prop_map(move |((recs, cont), alt, stretch)| {
                    // the alternative counting input shares a prefix of the records so multiplicities differ
                    let alt = alt.map(|(mut a, share)| {
                        let take = crate::util::idx16(share, recs.len() + 1);
                        for (i, r) in recs.iter().take(take).enumerate() {
                            a.push(Rec { id: format!("shared{}", i), desc: None, seq: r.seq.clone() });
                        }
                        a
                    });
                    Case { recs, cont, alt, k, bin_size, bin_count, norm, threads, mem, delim: delim.to_string(), stretch }
                })
            })
            .boxed()
    }
    fn check(c: &Case) -> Verdict {
        check_case(c)
    }
}

pub fn run(ctx: &mut Ctx) {
    let n = ctx.share(ctx.tier.pick(2_400, 40_000));
    ctx.run_leg::<Runs>(n, true, 200);
}

pub fn replay(leg: &str, case: &serde_json::Value) -> Option<Result<Verdict, String>> {
    match leg {
        "runs" => Some(crate::engine::replay_leg::<Runs>(case)),
        _ => None,
    }
}
