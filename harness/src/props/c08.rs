//! C08 — coverage histogram rows bin each window by its global k-mer multiplicity.
use super::c07::{mem_for_limit, target_limit};
use crate::engine::{guarded, Ctx, Leg, Tier, Verdict};
use crate::gen::{self, Container, Rec, RecParams};
use crate::io;
use crate::model;
use coverage::CovComputer;
use proptest::prelude::*;
use serde::{Deserialize, Serialize};
use std::path::Path;

#[derive(Clone, Copy, Debug, Serialize, Deserialize, PartialEq)]
pub enum CovMem {
    /// ceiling derived from the counting input so that counting makes about this many chunks
    /// (always < 1 GB: the vectors are flushed per record)
    Chunks(usize),
    /// 0.5 GB: flush per record
    Half,
    /// 1 GB and 6 GB: one flush at the end
    One,
    Six,
}

impl CovMem {
    pub fn gb(self, counting: &[Rec]) -> f64 {
        match self {
            CovMem::Chunks(c) => mem_for_limit(target_limit(counting, c)),
            CovMem::Half => 0.5,
            CovMem::One => 1.0,
            CovMem::Six => 6.0,
        }
    }
}

#[derive(Clone, Debug, Serialize, Deserialize)]
pub struct Case {
    pub recs: Vec<Rec>,
    pub cont: Container,
    pub alt: Option<Vec<Rec>>,
    pub k: usize,
    pub bin_size: usize,
    pub bin_count: usize,
    pub norm: bool,
    pub threads: usize,
    pub mem: CovMem,
    pub delim: String,
    /// (record index, minimum length): that record is repeated to this length (multiplicities beyond 65535)
    #[serde(default)]
    pub stretch: Option<(u16, usize)>,
    /// one more record: a unit repeated `.1` times, so that its k-mers occur exactly (or one less than) that often
    #[serde(default)]
    pub edge: Option<(crate::util::Bytes, usize)>,
    /// one more record, a homopolymer with exactly this many windows (multiplicities 255, 256, 1000, 1024, 65535, 65536 +-1)
    #[serde(default)]
    pub poly: Option<usize>,
}

fn materialise(c: &Case) -> Vec<Rec> {
    let mut recs = c.recs.clone();
    if let Some((unit, r)) = &c.edge {
        recs.push(Rec { id: "edge_multiplicity".into(), desc: None, seq: crate::util::Bytes(unit.0.repeat(*r)) });
    }
    if let Some(mult) = c.poly {
        recs.push(Rec { id: "poly".into(), desc: None, seq: crate::util::Bytes(vec![b'A'; mult + c.k - 1]) });
    }
    if let Some((i, min_len)) = c.stretch {
        if !recs.is_empty() {
            let idx = crate::util::idx16(i, recs.len());
            recs[idx].seq = crate::util::Bytes(super::c01::stretched(&recs[idx].seq, min_len));
        }
    }
    // a tenth of the plain cases: the records repeated in a cycle (distinct names) up to 1000 / 1024 / 1025 / 1300 / 2049
    // records, more than any fixed number of slices, rows or records a writer may handle per call
    if c.edge.is_none() && c.poly.is_none() && c.stretch.is_none() && !recs.is_empty() && recs.len() <= 60 {
        let h = crate::util::fnv64(format!("{}:{}:{}:{}", recs.len(), c.k, c.bin_size, c.threads).as_bytes());
        if h % 10 == 1 {
            let n = [1000usize, 1024, 1025, 1300, 2049][(h >> 8) as usize % 5];
            let base = recs.clone();
            recs = (0..n).map(|i| { let r = &base[i % base.len()]; Rec { id: format!("{}_{}", r.id, i), desc: r.desc.clone(), seq: if r.seq.0.len() > 300 { crate::util::Bytes(r.seq.0[..300].to_vec()) } else { r.seq.clone() } } }).collect();
        }
    }
    recs
}

pub struct CovOut {
    pub result: Result<(), String>,
    pub vectors: Option<Vec<u8>>,
}

#[allow(clippy::too_many_arguments)]
pub fn exec(input: &str, alt: Option<&str>, outdir: &Path, k: usize, bin_size: usize, bin_count: usize, norm: bool, threads: usize, mem_gb: f64, delim: &str) -> CovOut {
    let od = io::path_str(outdir);
    let result = guarded(|| {
        let mut cov = CovComputer::new(input.to_string(), od.clone(), k, bin_size, bin_count);
        cov.set_threads(threads);
        if let Some(a) = alt {
            cov.set_kmer_path(a.to_string());
        }
        cov.set_norm(norm);
        cov.set_max_memory(mem_gb);
        cov.set_delim(delim.to_string());
        cov.build_table().unwrap();
        cov.compute_coverages();
    });
    CovOut { result, vectors: std::fs::read(outdir.join("kmers.vectors")).ok() }
}

/// compare kmers.vectors with the model
pub fn check_vectors(data: &[u8], recs: &[Rec], counting: &[Rec], k: usize, bin_size: usize, bin_count: usize, norm: bool, delim: &str) -> Result<(bool, bool), (String, String)> {
    let seqs: Vec<&[u8]> = counting.iter().map(|r| &r.seq.0[..]).collect();
    let table = model::count_table(&seqs, k);
    let lines = io::lines_strict(data).map_err(|e| ("malformed-output".to_string(), e))?;
    if lines.len() != recs.len() {
        return Err(("row-count".into(), format!("{} rows for {} records", lines.len(), recs.len())));
    }
    let mut saturated = false;
    let mut multi_bin = false;
    for (i, (line, r)) in lines.iter().zip(recs.iter()).enumerate() {
        let row = io::parse_row(line, delim).map_err(|e| ("malformed-row".to_string(), format!("row {}: {}", i, e)))?;
        if row.len() != bin_count {
            return Err(("row-width".into(), format!("row {}: {} entries, bin count is {}", i, row.len(), bin_count)));
        }
        let (want, total) = model::coverage_row(&r.seq, k, &table, bin_size as u64, bin_count);
        if want.iter().filter(|&&x| x > 0).count() >= 2 {
            multi_bin = true;
        }
        for c in model::canonical_stream(&r.seq, k) {
            let cnt = *table.get(&c).unwrap_or(&0);
            if (cnt / bin_size as u64) as usize > bin_count - 1 {
                saturated = true;
            }
        }
        for (b, (&g, &w)) in row.iter().zip(want.iter()).enumerate() {
            if norm {
                let wv = if total == 0 { 0.0 } else { w as f64 / total as f64 };
                if (g - wv).abs() > 5e-7 + 1e-12 {
                    return Err(("value-norm".into(), format!("row {} bin {}: {} but {}/{} windows fall in this bin", i, b, g, w, total)));
                }
            } else if g != w as f64 {
                return Err(("value-count".into(), format!("row {} bin {}: {} but {} windows fall in this bin (row {:?}, model {:?})", i, b, g, w, row, want)));
            }
        }
    }
    Ok((saturated, multi_bin))
}

pub fn check_case(c0: &Case) -> Verdict {
    let mut v = Verdict::new();
    let c = &Case { recs: materialise(c0), edge: None, poly: None, ..c0.clone() };
    if let Some(m) = c0.poly {
        v.class(format!("multiplicity-{}", m));
    }
    v.class_if(c.recs.iter().any(|r| r.seq.0.len() > 65536), "record>65536");
    v.class_if(c0.edge.is_some(), "edge-multiplicity-record");
    if let Some((_, r)) = &c0.edge {
        v.class_if(r % c.bin_size == 0 && r / c.bin_size < c.bin_count, "multiplicity-exact-multiple-of-bin-size");
    }
    v.class(match c.bin_size { 1..=8 => "binsize<=8", 9..=48 => "binsize-9..48", 49..=600 => "binsize-49..600", _ => "binsize>600" });
    let dir = crate::scratch_dir();
    let input = io::write_input(dir.path(), "in", &c.recs, &c.cont);
    let alt_path = c.alt.as_ref().map(|a| io::write_input(dir.path(), "alt", a, &Container::plain_fasta()));
    let outdir = dir.path().join("out");
    std::fs::create_dir_all(&outdir).unwrap();
    let counting: &[Rec] = c.alt.as_deref().unwrap_or(&c.recs);
    let mem_gb = c.mem.gb(counting);
    let all_empty = !c.recs.is_empty() && c.recs.iter().all(|r| r.seq.0.is_empty());
    v.class_if(c.alt.is_some(), "alt-input");
    v.class_if(all_empty, "all-empty");
    v.class_if(c.recs.is_empty(), "zero-records");
    v.class(if mem_gb < 1.0 { "flush-per-record" } else { "flush-once" });
    v.class_if(c.bin_count == 1, "bins=1");
    v.class_if(c.bin_size == 1, "binsize=1");
    v.class_if(c.k >= 16, "k>=16");
    v.class(if c.norm { "norm" } else { "counts" });
    let alt_s = alt_path.as_ref().map(|p| io::path_str(p));
    let o = exec(&io::path_str(&input), alt_s.as_deref(), &outdir, c.k, c.bin_size, c.bin_count, c.norm, c.threads, mem_gb, &c.delim);
    if let Err(p) = &o.result {
        v.fail(crate::engine::panic_sig(p), format!("coverage run panicked: {}", p));
        return v;
    }
    let data = match o.vectors {
        Some(d) => d,
        None => {
            v.fail("no-vectors-file", "kmers.vectors does not exist");
            return v;
        }
    };
    match check_vectors(&data, &c.recs, counting, c.k, c.bin_size, c.bin_count, c.norm, &c.delim) {
        Ok((sat, multi)) => {
            v.class_if(sat, "saturated");
            v.nontrivial = c.recs.len() >= 2 && (sat || multi);
        }
        Err((s, m)) => {
            let s = if s == "row-count" && all_empty { "rows-dropped-all-empty".to_string() } else { s };
            v.fail(s, format!("{} [k={}, bin size {}, bin count {}, {} GB, {} threads]", m, c.k, c.bin_size, c.bin_count, mem_gb, c.threads));
        }
    }
    v
}

pub struct Runs;
impl Leg for Runs {
    type Case = Case;
    const NAME: &'static str = "runs";
    fn strategy(tier: Tier) -> BoxedStrategy<Case> {
        let bins = || prop_oneof![6 => 1usize..=8, 1 => Just(16usize), 1 => Just(1000usize), 2 => 9usize..=48, 4 => 49usize..=600, 1 => 601usize..=5000];
        let binc = prop_oneof![6 => 1usize..=8, 1 => Just(16usize)];
        let mem = prop_oneof![
            3 => prop::sample::select(vec![1usize, 2, 3, 5]).prop_map(CovMem::Chunks),
            1 => Just(CovMem::Half), 2 => Just(CovMem::One), 2 => Just(CovMem::Six),
        ];
        (
            prop_oneof![3 => 1usize..=6, 2 => gen::k_strategy()],
            bins(),
            binc,
            any::<bool>(),
            gen::threads_strategy(),
            mem,
            prop::sample::select(vec![" ", ",", "\t"]),
            prop::bool::weighted(0.35),
        )
            .prop_flat_map(move |(k, bin_size, bin_count, norm, threads, mem, delim, with_alt)| {
                let p = RecParams { max_records: tier.pick(30, 150), scale: k, max_len: tier.pick(150, 400), degenerate_w: 2, bounds: [k, 0, 0], nuc_only: false };
                let alt = if with_alt {
                    (gen::records(p), any::<u16>()).prop_map(|(a, share)| Some((a, share))).boxed()
                } else {
                    Just(None).boxed()
                };
                // multiplicities at the bin edges: m x bin size (and one off), m below the bin count and at it
                let edge = prop_oneof![
                    if bin_size > 8 { 1 } else { 3 } => Just(None).boxed(),
                    2 => (proptest::collection::vec(prop::sample::select(b"ACGT".to_vec()), 64), 1usize..=bin_count.max(1), prop::sample::select(vec![0i64, 0, 0, -1, 1]))
                        .prop_map(move |(unit, m, d)| {
                            let r = ((m * bin_size) as i64 + d).max(1) as usize;
                            Some((crate::util::Bytes(unit), r.min(2_000_000 / 64)))
                        })
                        .boxed(),
                ];
                let poly = prop_oneof![12 => Just(None), 1 => (prop::sample::select(vec![255usize, 256, 1000, 1024, 4096, 65535, 65536]), -1i64..=1).prop_map(|(m, d)| Some((m as i64 + d) as usize))];
                (gen::records_mixed_in_container(p), alt, prop_oneof![60 => Just(None), 2 => (any::<u16>(), Just(3_000usize)).prop_map(Some), 1 => (any::<u16>(), Just(140_000usize)).prop_map(Some)], edge, poly).prop_map(move |((recs, cont), alt, stretch, edge, poly)| {
                    // the alternative counting input shares a prefix of the records so multiplicities differ
                    let alt = alt.map(|(mut a, share)| {
                        let take = crate::util::idx16(share, recs.len() + 1);
                        for (i, r) in recs.iter().take(take).enumerate() {
                            a.push(Rec { id: format!("shared{}", i), desc: None, seq: r.seq.clone() });
                        }
                        a
                    });
                    Case { recs, cont, alt, k, bin_size, bin_count, norm, threads, mem, delim: delim.to_string(), stretch, edge, poly }
                })
            })
            .boxed()
    }
    fn check(c: &Case) -> Verdict {
        check_case(c)
    }
}

// ---------------------------------------------------------------------------------------------
// re-run in place: the same output directory and the same input *path*, but the file now holds other
// records of exactly the same byte length (and, half of the time, the same modification time). The
// multiplicities must be those of the input as it is now.

#[derive(Clone, Copy, Debug, Serialize, Deserialize, PartialEq)]
pub enum Rewrite {
    /// every sequence reversed (not complemented)
    Reverse,
    /// A<->C and G<->T
    Swap,
    /// bases rotated by one position inside every record
    Rotate,
}

#[derive(Clone, Debug, Serialize, Deserialize)]
pub struct RerunCase {
    pub first: Case,
    pub rewrite: Rewrite,
    pub keep_mtime: bool,
    /// the second run may use other bins / normalisation / threads (never another k: same table is legitimate only then)
    pub second_bins: Option<(usize, usize, bool)>,
}

fn rewrite(recs: &[Rec], how: Rewrite) -> Vec<Rec> {
    recs.iter()
        .map(|r| {
            let s = &r.seq.0;
            let t: Vec<u8> = match how {
                Rewrite::Reverse => s.iter().rev().copied().collect(),
                Rewrite::Swap => s
                    .iter()
                    .map(|&b| match b {
                        b'A' => b'C',
                        b'C' => b'A',
                        b'G' => b'T',
                        b'T' => b'G',
                        b'a' => b'c',
                        b'c' => b'a',
                        b'g' => b't',
                        b't' => b'g',
                        o => o,
                    })
                    .collect(),
                Rewrite::Rotate => {
                    let mut t = s.clone();
                    if !t.is_empty() {
                        t.rotate_left(1);
                    }
                    t
                }
            };
            Rec { id: r.id.clone(), desc: r.desc.clone(), seq: crate::util::Bytes(t) }
        })
        .collect()
}

pub fn check_rerun(c: &RerunCase) -> Verdict {
    let mut v = Verdict::new();
    let a = &Case { recs: materialise(&c.first), edge: None, poly: None, stretch: None, ..c.first.clone() };
    let second_recs = rewrite(&a.recs, c.rewrite);
    let second_alt = a.alt.as_ref().map(|x| rewrite(x, c.rewrite));
    v.class(format!("rerun-{:?}", c.rewrite));
    v.class_if(c.keep_mtime, "rerun-same-mtime");
    v.class_if(a.alt.is_some(), "alt-input");
    let dir = crate::scratch_dir();
    let outdir = dir.path().join("out");
    std::fs::create_dir_all(&outdir).unwrap();
    let input = io::write_input(dir.path(), "in", &a.recs, &a.cont);
    let alt_path = a.alt.as_ref().map(|x| io::write_input(dir.path(), "alt", x, &Container::plain_fasta()));
    let alt_s = alt_path.as_ref().map(|p| io::path_str(p));
    let counting: &[Rec] = a.alt.as_deref().unwrap_or(&a.recs);
    let mem_gb = a.mem.gb(counting);
    let o1 = exec(&io::path_str(&input), alt_s.as_deref(), &outdir, a.k, a.bin_size, a.bin_count, a.norm, a.threads, mem_gb, &a.delim);
    if let Err(p) = &o1.result {
        v.fail(crate::engine::panic_sig(p), format!("first run panicked: {}", p));
        return v;
    }
    match o1.vectors.as_deref().map(|d| check_vectors(d, &a.recs, counting, a.k, a.bin_size, a.bin_count, a.norm, &a.delim)) {
        Some(Ok(_)) => {}
        Some(Err((s, m))) => {
            v.fail(s, format!("first run: {}", m));
            return v;
        }
        None => {
            v.fail("no-vectors-file", "kmers.vectors does not exist after the first run");
            return v;
        }
    }
    // rewrite the files in place
    let before: Vec<(std::path::PathBuf, u64, std::time::SystemTime)> = std::iter::once(&input)
        .chain(alt_path.iter())
        .map(|p| {
            let md = std::fs::metadata(p).unwrap();
            (p.clone(), md.len(), md.modified().unwrap())
        })
        .collect();
    let input2 = io::write_input(dir.path(), "in", &second_recs, &a.cont);
    let alt2 = second_alt.as_ref().map(|x| io::write_input(dir.path(), "alt", x, &Container::plain_fasta()));
    assert_eq!(input2, input);
    assert_eq!(alt2, alt_path);
    let mut same_size = true;
    for (p, len, mtime) in &before {
        same_size &= std::fs::metadata(p).unwrap().len() == *len;
        if c.keep_mtime {
            let f = std::fs::OpenOptions::new().write(true).open(p).unwrap();
            f.set_modified(*mtime).unwrap();
        }
    }
    // gzip output of other content need not have the same size; the class says what was reached
    v.class_if(same_size, "rerun-same-byte-size");
    let (bs, bc, norm) = c.second_bins.unwrap_or((a.bin_size, a.bin_count, a.norm));
    let counting2: &[Rec] = second_alt.as_deref().unwrap_or(&second_recs);
    let changed = {
        let t1 = model::count_table(&counting.iter().map(|r| &r.seq.0[..]).collect::<Vec<_>>(), a.k);
        let t2 = model::count_table(&counting2.iter().map(|r| &r.seq.0[..]).collect::<Vec<_>>(), a.k);
        t1 != t2
    };
    v.nontrivial = changed && !second_recs.is_empty();
    v.class_if(changed, "rerun-multiplicities-changed");
    let o2 = exec(&io::path_str(&input), alt_s.as_deref(), &outdir, a.k, bs, bc, norm, a.threads, mem_gb, &a.delim);
    if let Err(p) = &o2.result {
        v.fail(crate::engine::panic_sig(p), format!("second run panicked: {}", p));
        return v;
    }
    match o2.vectors.as_deref().map(|d| check_vectors(d, &second_recs, counting2, a.k, bs, bc, norm, &a.delim)) {
        Some(Ok(_)) => {}
        Some(Err((s, m))) => v.fail(format!("rerun-{}", s), format!("second run into the same directory after the input file was rewritten in place ({:?}, same size {}, same mtime {}): {} [k={}, bin size {}, bin count {}]", c.rewrite, same_size, c.keep_mtime, m, a.k, bs, bc)),
        None => v.fail("no-vectors-file", "kmers.vectors does not exist after the second run"),
    }
    v
}

pub struct Rerun;
impl Leg for Rerun {
    type Case = RerunCase;
    const NAME: &'static str = "rerun-in-place";
    fn strategy(tier: Tier) -> BoxedStrategy<RerunCase> {
        (Runs::strategy(tier), prop::sample::select(vec![Rewrite::Reverse, Rewrite::Swap, Rewrite::Rotate]), any::<bool>(), prop_oneof![1 => Just(None), 1 => (1usize..=8, 1usize..=8, any::<bool>()).prop_map(Some)])
            .prop_map(|(mut first, rewrite, keep_mtime, second_bins)| {
                // uncompressed containers keep the byte size; gzip mostly does not (still generated, less often useful)
                if first.cont.gz.is_some() && first.recs.len() % 3 != 0 {
                    first.cont.gz = None;
                }
                first.stretch = None;
                RerunCase { first, rewrite, keep_mtime, second_bins }
            })
            .boxed()
    }
    fn check(c: &RerunCase) -> Verdict {
        check_rerun(c)
    }
}

/// the same check through the built executable (`kmertools cov`, options in the ranges it accepts: k 7..=31, bin
/// size and count >= 5, memory 6) under generated environments (pool-size variable, CPUs available to the
/// process, relative paths, locale): rows identical for every thread count *and* wherever the command runs
pub struct Executable;
impl Leg for Executable {
    type Case = Case;
    const NAME: &'static str = "executable";
    fn strategy(tier: Tier) -> BoxedStrategy<Case> {
        Runs::strategy(tier)
            .prop_map(|mut c| {
                c.k = 7 + c.k % 25;
                c.bin_size = c.bin_size.max(5);
                c.bin_count = c.bin_count.max(5);
                c.mem = CovMem::Six;
                c.stretch = None;
                c
            })
            .boxed()
    }
    fn check(c0: &Case) -> Verdict {
        let mut v = Verdict::new();
        let c = &Case { recs: materialise(c0), edge: None, poly: None, ..c0.clone() };
        let dir = crate::scratch_dir();
        let input = io::write_input(dir.path(), "in", &c.recs, &c.cont);
        let alt_path = c.alt.as_ref().map(|a| io::write_input(dir.path(), "alt", a, &Container::plain_fasta()));
        let out = dir.path().join("out");
        // threads and environment from the case's content (0 = automatic)
        let h = crate::util::fnv64(format!("{:?}{}{}", c.recs.len(), c.k, c.bin_size).as_bytes());
        let threads = [0usize, 1, 2, 3, 8, 16, c.threads][(h % 7) as usize];
        let preset = match c.delim.as_str() { "," => super::cmd::Preset::Csv, "\t" => super::cmd::Preset::Tsv, _ => super::cmd::Preset::Spc };
        let cmd = super::cmd::Cmd { k: c.k as u64, preset, bin_size: c.bin_size as u64, bin_count: c.bin_count as u64, memory: 6, counts: !c.norm, alt: c.alt.is_some(), threads, env_profile: ((h >> 8) % 128) as u8, spell: if h % 3 == 0 { crate::util::splitmix(h) } else { 0 }, ..super::cmd::Cmd::base(super::cmd::Sub::Cov) };
        v.class("cov-executable");
        v.class_if(cmd.env_profile >> 5 & 3 == 1, "one-cpu-available");
        v.class_if(threads == 0, "threads-automatic");
        v.class_if(cmd.spell != 0, "options-in-generated-spellings");
        let o = super::cmd::run_via_cli(&cmd, &input, alt_path.as_deref(), &out, None);
        if o.timed_out {
            v.class("cli-timeout");
            return v;
        }
        if !o.clean() {
            v.fail("cli-failed", format!("{:?}: {}", cmd.args("IN", Some("ALT"), "OUT"), o.describe()));
            return v;
        }
        let counting: &[Rec] = c.alt.as_deref().unwrap_or(&c.recs);
        match o.files.get("kmers.vectors") {
            None => v.fail("no-vectors-file", "kmers.vectors does not exist"),
            Some(data) => match check_vectors(data, &c.recs, counting, c.k, c.bin_size, c.bin_count, c.norm, &c.delim) {
                Ok((sat, multi)) => v.nontrivial = c.recs.len() >= 2 && (sat || multi),
                Err((s, m)) => v.fail(format!("executable-{}", s), format!("{:?} (environment profile {}): {}", cmd.args("IN", Some("ALT"), "OUT"), cmd.env_profile, m)),
            },
        }
        v
    }
}

/// one CovComputer object used for several rounds: set_kmer_path / build_table / compute_coverages with a
/// changing counting input (and the same one twice); every round's vectors against the model of that round
#[derive(Clone, Debug, Serialize, Deserialize)]
pub struct ReuseCase {
    pub recs: Vec<Rec>,
    /// counting input per round (None = the input itself); a round may also only recompute the vectors
    pub rounds: Vec<(Option<Vec<Rec>>, bool)>,
    pub k: usize,
    pub bin_size: usize,
    pub bin_count: usize,
    pub norm: bool,
    pub threads: usize,
}

pub fn check_reuse(c: &ReuseCase) -> Verdict {
    let mut v = Verdict::new();
    v.class("one-object-several-rounds");
    v.nontrivial = c.rounds.len() >= 2 && !c.recs.is_empty();
    let dir = crate::scratch_dir();
    let input = io::write_input(dir.path(), "in", &c.recs, &Container::plain_fasta());
    let outdir = dir.path().join("out");
    std::fs::create_dir_all(&outdir).unwrap();
    let od = io::path_str(&outdir);
    let mut cov = CovComputer::new(io::path_str(&input), od.clone(), c.k, c.bin_size, c.bin_count);
    cov.set_threads(c.threads);
    cov.set_norm(c.norm);
    cov.set_max_memory(6.0);
    let mut counting: Vec<Rec> = c.recs.clone();
    for (i, (alt, rebuild)) in c.rounds.iter().enumerate() {
        let r = guarded(|| {
            if *rebuild || i == 0 {
                match alt {
                    Some(a) => {
                        let p = io::write_input(dir.path(), &format!("alt{}", i), a, &Container::plain_fasta());
                        cov.set_kmer_path(io::path_str(&p));
                    }
                    None => cov.set_kmer_path(io::path_str(&input)),
                }
                cov.build_table().unwrap();
            }
            cov.compute_coverages();
        });
        if *rebuild || i == 0 {
            counting = alt.clone().unwrap_or_else(|| c.recs.clone());
        }
        if let Err(p) = r {
            v.fail(crate::engine::panic_sig(&p), format!("round {} panicked: {}", i, p));
            return v;
        }
        let data = std::fs::read(outdir.join("kmers.vectors")).unwrap_or_default();
        if let Err((s, m)) = check_vectors(&data, &c.recs, &counting, c.k, c.bin_size, c.bin_count, c.norm, " ") {
            v.fail(format!("reuse-{}", s), format!("round {} of {} on one CovComputer ({}): {} [k={}, bin size {}, bin count {}]", i, c.rounds.len(), if *rebuild || i == 0 { "table rebuilt" } else { "vectors only" }, m, c.k, c.bin_size, c.bin_count));
            return v;
        }
    }
    v
}

pub struct Reuse;
impl Leg for Reuse {
    type Case = ReuseCase;
    const NAME: &'static str = "one-object-several-rounds";
    fn strategy(tier: Tier) -> BoxedStrategy<ReuseCase> {
        (prop_oneof![3 => 1usize..=6, 1 => 7usize..=15], 1usize..=4, 2usize..=6, any::<bool>(), gen::threads_strategy())
            .prop_flat_map(move |(k, bin_size, bin_count, norm, threads)| {
                let p = RecParams { max_records: tier.pick(12, 40), scale: k, max_len: 120, degenerate_w: 1, bounds: [k, 0, 0], nuc_only: false };
                let round = (prop_oneof![1 => Just(None), 3 => gen::records_related(p).prop_map(Some)], prop::bool::weighted(0.8));
                (gen::records_related(p), proptest::collection::vec(round, 2..=4)).prop_map(move |(recs, rounds)| ReuseCase { recs, rounds, k, bin_size, bin_count, norm, threads })
            })
            .boxed()
    }
    fn check(c: &ReuseCase) -> Verdict {
        check_reuse(c)
    }
}

/// contention on new keys while the table is counted (adjacent duplicate records, many threads): bin size 1 and
/// many bins, so that one lost occurrence moves its windows to another bin
#[derive(Clone, Debug, Serialize, Deserialize)]
pub struct DupCase {
    pub spec: gen::DupSpec,
    pub k: usize,
    pub threads: usize,
    pub mem: CovMem,
}

pub struct DupStress;
impl Leg for DupStress {
    type Case = DupCase;
    const NAME: &'static str = "contention-new-keys";
    fn strategy(_tier: Tier) -> BoxedStrategy<DupCase> {
        (gen::dup_strategy(), 7usize..=21, 4usize..=16, prop::sample::select(vec![CovMem::Six, CovMem::One, CovMem::Half, CovMem::Chunks(2)])).prop_map(|(spec, k, threads, mem)| DupCase { spec, k, threads, mem }).boxed()
    }
    fn check(c: &DupCase) -> Verdict {
        let case = Case { recs: c.spec.expand(), cont: Container::plain_fasta(), alt: None, k: c.k, bin_size: 1, bin_count: 24, norm: false, threads: c.threads, mem: c.mem, delim: " ".into(), stretch: None, edge: None, poly: None };
        let mut v = check_case(&case);
        v.class("stress-new-keys");
        v.nontrivial = true;
        v
    }
}

pub fn run(ctx: &mut Ctx) {
    let n = ctx.share(ctx.tier.pick(400, 8_000));
    ctx.run_leg::<Executable>(n, false, 60);
    super::timeouts_inconclusive(ctx);
    let n = ctx.share(ctx.tier.pick(600, 10_000));
    ctx.run_leg::<Reuse>(n, true, 60);
    let n = ctx.share(ctx.tier.pick(240, 4_800));
    ctx.run_leg::<DupStress>(n, true, 20);

    let n = ctx.share(ctx.tier.pick(800, 12_000));
    ctx.run_leg::<Rerun>(n, true, 100);

    let n = ctx.share(ctx.tier.pick(2_400, 40_000));
    ctx.run_leg::<Runs>(n, true, 200);
}

pub fn replay(leg: &str, case: &serde_json::Value) -> Option<Result<Verdict, String>> {
    match leg {
        "runs" => Some(crate::engine::replay_leg::<Runs>(case)),
        "rerun-in-place" => Some(crate::engine::replay_leg::<Rerun>(case)),
        "contention-new-keys" => Some(crate::engine::replay_leg::<DupStress>(case)),
        "one-object-several-rounds" => Some(crate::engine::replay_leg::<Reuse>(case)),
        "executable" => Some(crate::engine::replay_leg::<Executable>(case)),
        _ => None,
    }
}
