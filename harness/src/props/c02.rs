//! C02 — reverse complement and ACGT decoding are exact inverses; strands symmetric.
use crate::engine::{Ctx, Leg, Tier, Verdict};
use crate::util::Bytes;
use crate::{gen, model};
use kmer::kmer::KmerGenerator;
use kmer::numeric_to_kmer;
use proptest::prelude::*;
use serde::{Deserialize, Serialize};

#[derive(Clone, Debug, Serialize, Deserialize)]
pub struct CodeCase {
    pub k: usize,
    pub x: u64,
}

pub fn check_code(k: usize, x: u64) -> Verdict {
    let mut v = Verdict::new();
    let top = model::pow4(k) - 1;
    v.nontrivial = x != 0 && x != top;
    let rc = KmerGenerator::rev_comp(x, k);
    let mrc = model::rc_code(x, k);
    v.class_if(k % 2 == 1, "odd-k");
    v.class_if(k >= 16, "k>=16");
    v.class_if(k == 31, "k=31");
    v.class_if(mrc == x, "palindrome");
    if rc != mrc {
        v.fail("revcomp-vs-text", format!("rev_comp({}, {}) = {} but the text-level reverse complement is {}", x, k, rc, mrc));
        return v;
    }
    let rr = KmerGenerator::rev_comp(rc, k);
    if rr != x {
        v.fail("revcomp-involution", format!("rev_comp(rev_comp({})) = {} (k={})", x, rr, k));
        return v;
    }
    let text = numeric_to_kmer(x, k);
    if text.len() != k || !text.bytes().all(|b| b"ACGT".contains(&b)) {
        v.fail("decode-alphabet", format!("numeric_to_kmer({}, {}) = {:?}", x, k, text));
        return v;
    }
    if model::encode(text.as_bytes()) != Some(x) {
        v.fail("decode-roundtrip", format!("numeric_to_kmer({}, {}) = {:?} re-encodes to {:?}", x, k, text, model::encode(text.as_bytes())));
    }
    v
}

pub struct Codes;
impl Leg for Codes {
    type Case = CodeCase;
    const NAME: &'static str = "codes-sampled";
    fn strategy(_tier: Tier) -> BoxedStrategy<CodeCase> {
        (1usize..=31)
            .prop_flat_map(|k| {
                let top = model::pow4(k) - 1;
                let half = k / 2;
                let x = prop_oneof![
                    8 => 0..=top,
                    1 => Just(0u64),
                    1 => Just(top),
                    1 => Just(top - 1),
                    1 => Just(1u64),
                    // palindromes x . rc(x) for even k (and with a middle base for odd k)
                    3 => (0..=(model::pow4(half.max(1)) - 1), 0u64..4).prop_map(move |(h, mid)| {
                        if half == 0 { return mid; }
                        let r = model::rc_code(h, half);
                        if k % 2 == 0 { h * model::pow4(half) + r } else { (h * 4 + mid) * model::pow4(half) + r }
                    }),
                    // single-bit and single-digit patterns
                    2 => (0u32..62).prop_map(move |b| (1u64 << b) & top),
                    1 => (0u32..62).prop_map(move |b| top ^ ((1u64 << b) & top)),
                    // high digits set (top bits of the register)
                    2 => (0..=top).prop_map(move |x| x | (3u64 << (2 * (k - 1)))),
                ];
                (Just(k), x)
            })
            .prop_map(|(k, x)| CodeCase { k, x })
            .boxed()
    }
    fn check(c: &CodeCase) -> Verdict {
        check_code(c.k, c.x)
    }
}

#[derive(Clone, Debug, Serialize, Deserialize)]
pub struct SeqCase {
    pub seq: Bytes,
    pub k: usize,
}

pub fn check_seq(seq: &[u8], k: usize) -> Verdict {
    let mut v = Verdict::new();
    let fwd: Vec<(u64, u64)> = KmerGenerator::new(seq, k).collect();
    let rc_text = model::revcomp_text(seq);
    let rev: Vec<(u64, u64)> = KmerGenerator::new(&rc_text, k).collect();
    v.nontrivial = fwd.len() >= 2 && rc_text != seq;
    for t in [1usize, 3, 4, 7, 9, 12] {
        let a = crate::util::Aligned::new(seq, t);
        let g: Vec<(u64, u64)> = KmerGenerator::new(a.get(), k).collect();
        if g != fwd {
            v.fail("depends-on-address-alignment", format!("with the first byte at an address = {} mod 16 the iterator yields {} items, otherwise {} (k={})", t, g.len(), fwd.len(), k));
            return v;
        }
    }
    v.class_if(seq.iter().any(|&b| !model::is_base(b)), "has-foreign");
    v.class_if(k >= 16, "k>=16");
    v.class_if(k % 2 == 1, "odd-k");
    for (i, (f, r)) in fwd.iter().enumerate() {
        if *f >= model::pow4(k) {
            v.fail("code-out-of-range", format!("item {}: {} >= 4^{}", i, f, k));
            return v;
        }
        let m = model::rc_code(*f, k);
        if *r != m {
            v.fail("pair-not-revcomp", format!("item {}: pair ({}, {}) but reverse complement of the first is {} (k={})", i, f, r, m, k));
            return v;
        }
    }
    let mirrored: Vec<(u64, u64)> = fwd.iter().rev().map(|&(f, r)| (r, f)).collect();
    if rev != mirrored {
        let pos = rev.iter().zip(mirrored.iter()).position(|(a, b)| a != b);
        v.fail(
            "stream-symmetry",
            format!("stream of the reverse-complemented sequence ({} items) is not the original stream ({} items) reversed with strands swapped; first difference at {:?}", rev.len(), fwd.len(), pos),
        );
        return v;
    }
    let mut a: Vec<u64> = fwd.iter().map(|&(f, r)| f.min(r)).collect();
    let mut b: Vec<u64> = rev.iter().map(|&(f, r)| f.min(r)).collect();
    a.sort_unstable();
    b.sort_unstable();
    if a != b {
        v.fail("canonical-multiset", "multisets of canonical k-mers differ between a sequence and its reverse complement");
    }
    v
}

pub struct Seqs;
impl Leg for Seqs {
    type Case = SeqCase;
    const NAME: &'static str = "seq-symmetry";
    fn strategy(tier: Tier) -> BoxedStrategy<SeqCase> {
        let max = tier.pick(200, 1500);
        gen::k_strategy()
            .prop_flat_map(move |k| (gen::seq(k, max, false), Just(k)))
            .prop_map(|(seq, k)| SeqCase { seq: Bytes(seq), k })
            .boxed()
    }
    fn check(c: &SeqCase) -> Verdict {
        check_seq(&c.seq, c.k)
    }
}

/// pykmertools to_acgt (both iterator classes) against the model's decoding
pub struct PyAcgt;
impl Leg for PyAcgt {
    type Case = CodeCase;
    const NAME: &'static str = "python-to-acgt";
    fn strategy(tier: Tier) -> BoxedStrategy<CodeCase> {
        Codes::strategy(tier)
    }
    fn check(c: &CodeCase) -> Verdict {
        let mut v = Verdict::new();
        v.class("python");
        v.nontrivial = c.x != 0 && c.x != model::pow4(c.k) - 1;
        let want = String::from_utf8(model::decode(c.x, c.k)).unwrap();
        match crate::pyworker::ask(&serde_json::json!({"op": "acgt", "k": c.k, "x": c.x})) {
            Err(e) => crate::pyworker::record_error(&mut v, e),
            Ok(r) => {
                let got: Vec<String> = r["ok"].as_array().map(|a| a.iter().map(|x| x.as_str().unwrap_or("").to_string()).collect()).unwrap_or_default();
                if got.len() != 2 || got[0] != want || got[1] != want {
                    v.fail("python-to-acgt", format!("to_acgt({}) with k={}: Python gives {:?}, the code decodes to {:?}", c.x, c.k, got, want));
                }
            }
        }
        v
    }
}

/// first calls of a fresh process made by several threads at once (lazily built tables, caches)
pub struct Cold;
impl Leg for Cold {
    type Case = super::coldstart::Case;
    const NAME: &'static str = "cold-start-threads";
    fn strategy(_tier: Tier) -> BoxedStrategy<Self::Case> {
        use super::coldstart::{codes, Op};
        let op = (1usize..=31)
            .prop_flat_map(|k| {
                prop_oneof![
                    4 => codes(k, 40).prop_map(move |c| Op::RevComp { k, codes: c }),
                    2 => codes(k, 20).prop_map(move |c| Op::Decode { k, codes: c }),
                    1 => super::coldstart::small_seq(k).prop_map(move |seq| Op::KmerIter { seq, k }),
                ]
            })
            .boxed();
        super::coldstart::case_strategy(op)
    }
    fn check(c: &Self::Case) -> Verdict {
        super::coldstart::check(c, "cold-start-wrong-result")
    }
}

/// raw bytes 0x00-0x03 (pre-encoded bases for the lookup table) may occur: the clause that needs no definition
/// of a base - the second component of every pair is the reverse complement of the first, codes < 4^k
pub struct RawPairs;
impl Leg for RawPairs {
    type Case = SeqCase;
    const NAME: &'static str = "raw-bytes-pairs";
    fn strategy(tier: Tier) -> BoxedStrategy<SeqCase> {
        (Seqs::strategy(tier), proptest::collection::vec((any::<u16>(), 0u8..=3), 1..=8))
            .prop_map(|(mut c, ins)| {
                for (p, b) in ins {
                    if !c.seq.0.is_empty() {
                        let i = crate::util::idx16(p, c.seq.0.len());
                        c.seq.0[i] = b;
                    }
                }
                c
            })
            .boxed()
    }
    fn check(c: &SeqCase) -> Verdict {
        let mut v = Verdict::new();
        v.class("raw-bytes-0-3");
        let items: Vec<(u64, u64)> = KmerGenerator::new(&c.seq, c.k).collect();
        v.nontrivial = !items.is_empty() && c.seq.iter().any(|&b| b < 4);
        for (i, (f, r)) in items.iter().enumerate() {
            if *f >= model::pow4(c.k) {
                v.fail("code-out-of-range", format!("item {}: {} >= 4^{}", i, f, c.k));
                return v;
            }
            let m = model::rc_code(*f, c.k);
            if *r != m {
                v.fail("pair-not-revcomp", format!("with raw bytes 0x00-0x03 in the input, item {}: pair ({}, {}) but the reverse complement of the first is {} (k={})", i, f, r, m, c.k));
                return v;
            }
        }
        v
    }
}

/// pykmertools: to_acgt called on the iterator object while it is being iterated (and afterwards)
pub struct PyAcgtLoop;
impl Leg for PyAcgtLoop {
    type Case = SeqCase;
    const NAME: &'static str = "python-to-acgt-while-iterating";
    fn strategy(_tier: Tier) -> BoxedStrategy<SeqCase> {
        gen::k_strategy().prop_flat_map(|k| (gen::seq(k, 120, false), Just(k))).prop_map(|(seq, k)| SeqCase { seq: Bytes(seq), k }).boxed()
    }
    fn check(c: &SeqCase) -> Verdict {
        let mut v = Verdict::new();
        v.class("python");
        let seq = super::c01::utf8_safe(&c.seq);
        let (w, m) = (c.k.max(3), c.k.min(3).max(1));
        v.nontrivial = !model::windows(&seq, c.k).is_empty() && seq.iter().any(|b| b"acgtuU".contains(b));
        match crate::pyworker::ask(&serde_json::json!({"op": "acgt_loop", "k": c.k, "w": w, "m": m, "seq": crate::pyworker::hex(&seq)})) {
            Err(e) => crate::pyworker::record_error(&mut v, e),
            Ok(r) => {
                let dec = |x: u64, k: usize| String::from_utf8(model::decode(x, k)).unwrap();
                let rows = r["ok"]["kmers"].as_array().cloned().unwrap_or_default();
                for (i, row) in rows.iter().enumerate() {
                    let (f, rr) = (row[0].as_u64().unwrap_or(0), row[1].as_u64().unwrap_or(0));
                    let (tf, tr) = (row[2].as_str().unwrap_or(""), row[3].as_str().unwrap_or(""));
                    if tf != dec(f, c.k) || tr != dec(rr, c.k) {
                        v.fail("python-to-acgt-while-iterating", format!("item {}: inside the loop to_acgt({}) = {:?} and to_acgt({}) = {:?}, the codes decode to {:?} and {:?} (k={})", i, f, tf, rr, tr, dec(f, c.k), dec(rr, c.k), c.k));
                        return v;
                    }
                }
                if let (Some(first), Some(after)) = (rows.first(), r["ok"]["after"].as_array()) {
                    let (f, rr) = (first[0].as_u64().unwrap_or(0), first[1].as_u64().unwrap_or(0));
                    if after.len() != 2 || after[0].as_str() != Some(&dec(f, c.k)) || after[1].as_str() != Some(&dec(rr, c.k)) {
                        v.fail("python-to-acgt-after-iterating", format!("after the loop to_acgt gives {:?} for the first item's codes ({}, {}), k={}", after, f, rr, c.k));
                        return v;
                    }
                }
                for (i, row) in r["ok"]["mins"].as_array().cloned().unwrap_or_default().iter().enumerate() {
                    let (x, t) = (row[0].as_u64().unwrap_or(0), row[1].as_str().unwrap_or(""));
                    if t != dec(x, m) {
                        v.fail("python-to-acgt-while-iterating", format!("minimiser run {}: inside the loop to_acgt({}) = {:?}, the code decodes to {:?} (m={})", i, x, t, dec(x, m), m));
                        return v;
                    }
                }
            }
        }
        v
    }
}

/// the stream clauses through pykmertools.KmerGenerator on sequences of several kilobytes with long stretches of N:
/// every pair's second component is the reverse complement of the first, and the stream of the reverse-complemented
/// text is the mirrored stream (so whatever is lost or invented on one strand shows on the other)
#[derive(Clone, Debug, Serialize, Deserialize)]
pub struct PySymCase {
    pub giant: gen::Giant,
    pub k: usize,
}

pub struct PySym;
impl Leg for PySym {
    type Case = PySymCase;
    const NAME: &'static str = "python-stream-symmetry";
    fn strategy(_tier: Tier) -> BoxedStrategy<PySymCase> {
        (gen::giant(1_500, 24_000, b"ACGTNacgtu".to_vec()), gen::k_strategy())
            .prop_map(|(mut giant, k)| {
                // long periods only (a homopolymer has a trivial stream) and at least one long gap in half of the cases
                if giant.unit.0.len() < 40 {
                    giant.unit = Bytes(b"ACGTTGCAAGGCTTAACCGGTTACGATCGATCGGCTAGGCTAGCTAGGATCGATTAGC".to_vec());
                }
                if giant.gaps.is_empty() && k % 2 == 0 {
                    giant.gaps = vec![((k as u32).wrapping_mul(0x0F0F_1357), 1024 + (k as u32) * 77)];
                }
                PySymCase { giant, k }
            })
            .boxed()
    }
    fn check(c: &PySymCase) -> Verdict {
        let mut v = Verdict::new();
        v.class("python");
        let seq = c.giant.expand();
        let rc = model::revcomp_text(&seq);
        v.class_if(!c.giant.gaps.is_empty(), "long-stretches-of-N");
        let ask = |s: &[u8]| -> Result<Vec<(u64, u64)>, String> {
            let r = crate::pyworker::ask(&serde_json::json!({"op": "kmers", "k": c.k, "seq": crate::pyworker::hex(s)}))?;
            super::c01::parse_tuples_u64(&r, 2).map(|t| t.iter().map(|x| (x[0], x[1])).collect())
        };
        let (fwd, rev) = match (ask(&seq), ask(&rc)) {
            (Ok(a), Ok(b)) => (a, b),
            (Err(e), _) | (_, Err(e)) => {
                crate::pyworker::record_error(&mut v, e);
                return v;
            }
        };
        v.nontrivial = fwd.len() >= 2;
        for (i, (f, r)) in fwd.iter().enumerate() {
            if *r != model::rc_code(*f, c.k) {
                v.fail("python-pair-not-revcomp", format!("item {}: pair ({}, {}) (k={})", i, f, r, c.k));
                return v;
            }
        }
        let mirrored: Vec<(u64, u64)> = fwd.iter().rev().map(|&(f, r)| (r, f)).collect();
        if rev != mirrored {
            let p = rev.iter().zip(mirrored.iter()).position(|(a, b)| a != b);
            v.fail("python-stream-symmetry", format!("pykmertools.KmerGenerator on {} bytes, k={}: the stream of the reverse-complemented text has {} items, the original {}; first difference at {:?}", seq.len(), c.k, rev.len(), fwd.len(), p));
        }
        v
    }
}

/// many codes decoded one after the other on ONE Python object: families of codes that share their low (or
/// high) digits, repeats, extremes - per-object memo tables keyed by a part of the code
#[derive(Clone, Debug, Serialize, Deserialize)]
pub struct ManyCodes {
    pub k: usize,
    pub codes: Vec<u64>,
}

pub struct PyAcgtMany;
impl Leg for PyAcgtMany {
    type Case = ManyCodes;
    const NAME: &'static str = "python-to-acgt-one-object";
    fn strategy(_tier: Tier) -> BoxedStrategy<ManyCodes> {
        prop_oneof![1 => 1usize..=31, 2 => 16usize..=31]
            .prop_flat_map(|k| {
                let top = model::pow4(k) - 1;
                // a base code and variants of it: other leading digits, other trailing digits, one digit changed
                let fam = (0..=top, proptest::collection::vec((0u8..4, 0u32..62, any::<u64>()), 1..=12)).prop_map(move |(x, vs)| {
                    let mut out = vec![x];
                    for (kind, bit, r) in vs {
                        let b = bit.min(2 * k as u32 - 1);
                        let lowmask = (1u64 << b) - 1;
                        out.push(match kind {
                            0 => ((x & lowmask) | (r & !lowmask)) & top, // same low bits, other leading digits
                            1 => ((x & !lowmask) | (r & lowmask)) & top, // same leading digits, other low bits
                            2 => (x ^ (1u64 << b)) & top,
                            _ => x,
                        });
                    }
                    out
                });
                (Just(k), proptest::collection::vec(fam, 1..=4).prop_map(|f| f.concat()))
            })
            .prop_map(|(k, codes)| ManyCodes { k, codes })
            .boxed()
    }
    fn check(c: &ManyCodes) -> Verdict {
        let mut v = Verdict::new();
        v.class("python");
        v.class_if(c.k >= 22, "k>=22");
        v.nontrivial = c.codes.len() >= 3;
        match crate::pyworker::ask(&serde_json::json!({"op": "acgt_many", "k": c.k, "codes": c.codes})) {
            Err(e) => crate::pyworker::record_error(&mut v, e),
            Ok(r) => {
                let rows = r["ok"].as_array().cloned().unwrap_or_default();
                if rows.len() != c.codes.len() {
                    v.fail("python-worker", format!("python answered {}", crate::util::trunc(&r.to_string(), 200)));
                    return v;
                }
                for (i, (x, row)) in c.codes.iter().zip(rows.iter()).enumerate() {
                    let want = String::from_utf8(model::decode(*x, c.k)).unwrap();
                    for (j, what) in ["KmerGenerator", "MinimiserGenerator"].iter().enumerate() {
                        if row[j].as_str() != Some(&want) {
                            v.fail("python-to-acgt-one-object", format!("call {} on one {} object: to_acgt({}) = {:?}, the code decodes to {:?} (k={}; codes decoded before: {:?})", i, what, x, row[j], want, c.k, &c.codes[..i.min(6)]));
                            return v;
                        }
                    }
                }
            }
        }
        v
    }
}

/// one Python iterator object driven by a script (next / for-with-break / list / iter, calls after the end)
pub struct PySessions;
impl Leg for PySessions {
    type Case = super::pysessions::PySession;
    const NAME: &'static str = "python-call-histories";
    fn strategy(_tier: Tier) -> BoxedStrategy<Self::Case> {
        super::pysessions::strategy(false)
    }
    fn check(c: &Self::Case) -> Verdict {
        super::pysessions::check(c)
    }
}

pub fn run(ctx: &mut Ctx) {
    let np = ctx.share(ctx.tier.pick(6_000, 120_000));
    ctx.run_leg::<PySessions>(np, false, 300);
    let n = ctx.share(ctx.tier.pick(400, 8_000));
    ctx.run_leg::<PySym>(n, false, 40);
    let n = ctx.share(ctx.tier.pick(12_000, 200_000));
    ctx.run_leg::<PyAcgtMany>(n, false, 500);
    let n = ctx.share(ctx.tier.pick(30_000, 600_000));
    ctx.run_leg::<RawPairs>(n, false, 2000);
    let n = ctx.share(ctx.tier.pick(12_000, 200_000));
    ctx.run_leg::<PyAcgtLoop>(n, false, 500);

    let nc = ctx.share(ctx.tier.pick(2_400, 40_000));
    ctx.run_leg::<Cold>(nc, false, 40);
    super::coldstart::infra_inconclusive(ctx);

    let n = ctx.share(ctx.tier.pick(30_000, 400_000));
    ctx.run_leg::<PyAcgt>(n, false, 1000);
    // (a) exhaustive codes
    let kmax = ctx.tier.pick(9, 12);
    let (sh, n) = (ctx.shard as u64, ctx.nshards as u64);
    let items = (1..=kmax).flat_map(move |k| {
        let top = model::pow4(k);
        ((sh..top).step_by(n as usize)).map(move |x| CodeCase { k, x })
    });
    ctx.run_enum("codes-exhaustive", &format!("all codes x < 4^k for k = 1..={}", kmax), items, false, |c| check_code(c.k, c.x));
    let n1 = ctx.share(ctx.tier.pick(200_000, 4_000_000));
    ctx.run_leg::<Codes>(n1, false, 2000);
    let n2 = ctx.share(ctx.tier.pick(30_000, 600_000));
    ctx.run_leg::<Seqs>(n2, false, 4000);
    crate::pyworker::infra_inconclusive(ctx);
}

pub fn replay(leg: &str, case: &serde_json::Value) -> Option<Result<Verdict, String>> {
    match leg {
        "codes-exhaustive" | "codes-sampled" => Some(crate::engine::replay_leg::<Codes>(case)),
        "seq-symmetry" => Some(crate::engine::replay_leg::<Seqs>(case)),
        "python-to-acgt" => Some(crate::engine::replay_leg::<PyAcgt>(case)),
        "python-to-acgt-one-object" => Some(crate::engine::replay_leg::<PyAcgtMany>(case)),
        "python-call-histories" => Some(crate::engine::replay_leg::<PySessions>(case)),
        "python-stream-symmetry" => Some(crate::engine::replay_leg::<PySym>(case)),
        "raw-bytes-pairs" => Some(crate::engine::replay_leg::<RawPairs>(case)),
        "python-to-acgt-while-iterating" => Some(crate::engine::replay_leg::<PyAcgtLoop>(case)),
        "cold-start-threads" => Some(crate::engine::replay_leg::<Cold>(case)),
        _ => None,
    }
}
