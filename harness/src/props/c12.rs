//! C12 — k-mer CGR pairs each canonical k-mer's CGR position with its oligo frequency.
use super::c04::rank_table;
use super::c05::Mem;
use super::oligo_exec::{self, OligoCfg, Writer};
use crate::engine::{guarded, Ctx, Leg, Tier, Verdict};
use crate::gen::{self, Container, Rec, RecParams, Sched};
use crate::io;
use crate::model;
use composition::oligocgr::OligoCgrComputer;
use proptest::prelude::*;
use serde::{Deserialize, Serialize};

#[derive(Clone, Debug, Serialize, Deserialize)]
pub struct Case {
    pub recs: Vec<Rec>,
    pub cont: Container,
    pub k: usize,
    pub s: u64,
    pub norm: bool,
    pub threads: usize,
    pub mem: Mem,
    /// one more record, giant (counts beyond 2^16 / 2^24)
    #[serde(default)]
    pub giant: Option<gen::Giant>,
    /// run the built executable (comp cgr -k K -v S [-c]) instead of the library
    #[serde(default)]
    pub via_cli: bool,
    /// (library runs) another computer of the same k with this square size is built first and stays alive;
    /// when the flag is set it also runs first
    #[serde(default)]
    pub cohabitant: Option<(u64, bool)>,
    /// bytes of left-over text at the output path before the run
    #[serde(default)]
    pub stale: u32,
}

pub fn check_case(c0: &Case) -> Verdict {
    let mut v = Verdict::new();
    let mut recs = c0.recs.clone();
    if let Some(g) = &c0.giant {
        recs.push(Rec { id: "giant".into(), desc: None, seq: crate::util::Bytes(g.expand()) });
        v.class(g.label());
    }
    let c = &Case { recs, giant: None, ..c0.clone() };
    let rt = rank_table(c.k);
    let dir = crate::scratch_dir();
    let input = io::write_input(dir.path(), "in", &c.recs, &c.cont);
    let out = dir.path().join("out.kcgr");
    io::set_stale(c.stale as usize);
    io::plant_stale(&out);
    io::set_stale(0);
    v.class_if(c.stale > 0, "output-path-holds-an-earlier-result");
    let mem = c.mem.bytes(&c.recs);
    let batches = c.mem.batches(&c.recs);
    v.class(match batches { 0 | 1 => "batches<=1", 2 => "batches=2", _ => "batches>=3" });
    v.class(format!("k={}", c.k));
    if c.k >= 5 && c.recs.len() <= 100 {
        let round = c.recs.iter().any(|r| r.seq.0.len() >= 255 && r.seq.0.len() < 100_000 && {
            let (counts, _) = model::oligo_counts(&r.seq.0, &rt);
            gen::DISTINCT_TARGETS.contains(&counts.iter().filter(|&&x| x > 0).count())
        });
        v.class_if(round, "record-with-255/256/257/1024...-distinct-kmers");
    }
    v.class(if c.norm { "norm" } else { "counts" });
    v.class(match c.s { 1 => "S=1", 2..=16 => "S<=16", 17..=1024 => "S<=1024", _ => "S>1024" });
    v.class(if c.via_cli { "via-executable" } else { "via-library" });
    let r = if c.via_cli {
        // the numbers in one of the decimal spellings the argument parser accepts (plain, zero-padded, plus sign),
        // chosen from the case's content
        let h = crate::util::fnv64(format!("{}:{}:{}", c.recs.len(), c.k, c.s).as_bytes());
        let spelt = |x: u64, j: u64| match (h >> (3 * j)) & 7 { 5 => format!("0{}", x), 6 => format!("000{}", x), 7 => format!("+{}", x), _ => x.to_string() };
        v.class_if((0..3).any(|j| (h >> (3 * j)) & 7 >= 5), "numbers-zero-padded-or-signed");
        let mut args = crate::cli::sv(&["comp", "cgr", "-i", &io::path_str(&input), "-o", &io::path_str(&out), "-k", &spelt(c.k as u64, 0), "-v", &spelt(c.s, 1), "-t", &spelt(c.threads as u64, 2)]);
        if !c.norm {
            args.push("-c".into());
        }
        let r = crate::cli::run_cli(&args, None, 120);
        if r.timed_out {
            v.class("cli-timeout");
            return v;
        }
        if !r.ok() || r.panicked() {
            Err(format!("{:?}: exit {:?} signal {:?} stderr {}", args, r.code, r.signal, crate::util::trunc(&r.stderr, 400)))
        } else {
            Ok(Ok(()))
        }
    } else {
        v.class_if(c.cohabitant.is_some(), "another-computer-alive");
        guarded(|| {
            let other = c.cohabitant.map(|(s2, first)| {
                let mut o = OligoCgrComputer::new(io::path_str(&input), io::path_str(&dir.path().join("other.kcgr")), c.k, s2 as usize);
                o.set_threads(1);
                o.set_norm(!c.norm);
                if first {
                    let _ = o.vectorise();
                }
                o
            });
            let mut cc = OligoCgrComputer::new(io::path_str(&input), io::path_str(&out), c.k, c.s as usize);
            cc.set_threads(c.threads);
            cc.set_norm(c.norm);
            cc.verif_set_max_memory(mem);
            let r = cc.vectorise();
            drop(other);
            r
        })
    };
    match r {
        Err(p) => {
            v.fail(crate::engine::panic_sig(&p), format!("k-mer cgr panicked: {}", p));
            return v;
        }
        Ok(Err(e)) => {
            v.fail("vectorise-error", format!("k-mer cgr returned Err({})", e));
            return v;
        }
        Ok(Ok(())) => {}
    }
    let data = std::fs::read(&out).unwrap_or_default();
    let lines = match io::lines_strict(&data) {
        Ok(l) => l,
        Err(e) => {
            v.fail("malformed-output", e);
            return v;
        }
    };
    if lines.len() != c.recs.len() {
        v.fail("row-count", format!("{} rows for {} records", lines.len(), c.recs.len()));
        return v;
    }
    // exact end point per column
    let ends: Vec<(f64, f64)> = rt
        .texts()
        .iter()
        .map(|t| {
            let p = model::cgr_points(t.as_bytes(), c.s).unwrap();
            let l = p.last().unwrap();
            assert!(l.0 .1 && l.1 .1, "end point must be exactly representable");
            (l.0 .0, l.1 .0)
        })
        .collect();
    // differential partner: the oligo output for the same file
    let oligo_out = dir.path().join("oligo.out");
    let ocfg = OligoCfg { k: c.k, threads: 1, memory: 4usize << 30, writer: Writer::Batch, norm: c.norm, header: false, delim: " ".into() };
    let orun = oligo_exec::exec(&io::path_str(&input), &io::path_str(&oligo_out), &ocfg, &Sched::Free);
    let olines = orun.output.as_deref().and_then(|d| io::lines_strict(d).ok());
    let mut distinct_nonzero = false;
    for (i, (l, rec)) in lines.iter().zip(c.recs.iter()).enumerate() {
        let tr = match io::parse_tuples(l, 3) {
            Ok(t) => t,
            Err(e) => {
                v.fail("malformed-row", format!("row {}: {}", i, e));
                return v;
            }
        };
        if tr.len() != rt.len() {
            v.fail("row-width", format!("row {}: {} triples for {} canonical k-mers", i, tr.len(), rt.len()));
            return v;
        }
        let (counts, total) = model::oligo_counts(&rec.seq, &rt);
        let orow = olines.as_ref().and_then(|ol| ol.get(i)).and_then(|l| io::parse_row(l, " ").ok());
        let mut nz = std::collections::HashSet::new();
        for (j, t) in tr.iter().enumerate() {
            if (t[0], t[1]) != ends[j] {
                v.fail(
                    "kmer-position",
                    format!("row {} column {} ({}): position ({}, {}) but the chaos-game end point of the k-mer text is ({}, {}) (S={})", i, j, rt.texts()[j], t[0], t[1], ends[j].0, ends[j].1, c.s),
                );
                return v;
            }
            let want = if c.norm { if total == 0 { 0.0 } else { counts[j] as f64 / total as f64 } } else { counts[j] as f64 };
            if (t[2] - want).abs() > 1e-9 {
                v.fail(
                    "kmer-frequency",
                    format!("row {} column {} ({}): f = {} but the oligo value is {} (count {}, total {})", i, j, rt.texts()[j], t[2], want, counts[j], total),
                );
                return v;
            }
            if counts[j] > 0 {
                nz.insert(counts[j]);
            }
            if let Some(or) = &orow {
                let tol = if c.norm { 5e-7 + 1e-12 } else { 0.0 };
                if or.len() != tr.len() || (or[j] - t[2]).abs() > tol {
                    v.fail("differs-from-oligo-output", format!("row {} column {}: f = {} but comp oligo writes {:?} for the same record", i, j, t[2], or.get(j)));
                    return v;
                }
            }
        }
        if counts.iter().filter(|&&x| x > 0).count() >= 2 {
            distinct_nonzero = true;
        }
    }
    if olines.is_none() && !c.recs.is_empty() {
        v.fail("oligo-partner-failed", "the oligo run used as differential partner did not produce output");
    }
    v.nontrivial = c.recs.len() >= 2 && distinct_nonzero;
    v
}

pub struct Runs;
impl Leg for Runs {
    type Case = Case;
    const NAME: &'static str = "runs";
    fn strategy(tier: Tier) -> BoxedStrategy<Case> {
        (prop_oneof![8 => 1usize..=6, 1 => Just(7usize)], gen::square_strategy(), any::<bool>(), gen::threads_strategy(), prop::sample::select(vec![Mem::OneByte, Mem::ThreeRecords, Mem::Half, Mem::Max]))
            .prop_flat_map(move |(k, s, norm, threads, mem)| {
                let p = RecParams { max_records: if k >= 7 { 3 } else if k >= 5 { 8 } else { tier.pick(20, 80) }, scale: k, max_len: tier.pick(150, 400), degenerate_w: 2, bounds: [k, 0, 0], nuc_only: false };
                (gen::records_in_container(p), prop_oneof![2 => Just(None), 1 => (gen::square_strategy(), any::<bool>()).prop_map(Some)], io::stale_strategy(), prop_oneof![5 => Just(None), 1 => (any::<u16>(), any::<u64>()).prop_map(Some)]).prop_map(move |((mut recs, cont), cohabitant, stale, distinct)| {
                    // one record (followed by others) with exactly 255 / 256 / 257 / 1024 ... distinct canonical k-mers
                    if let Some((pick, seed)) = distinct {
                        gen::plant_distinct(&mut recs, k, pick, seed);
                    }
                    // k <= 4, a twelfth of the cases: one long record first, then 20-70 tiny ones that together are as long,
                    // and a batch limit of the first record's length: a batch of one row followed by a batch of dozens
                    let h = crate::util::fnv64(format!("{}:{}:{}", recs.len(), k, s).as_bytes());
                    let (mut recs, mut mem, mut cont) = (recs, mem, cont);
                    if k <= 4 && h % 12 == 3 {
                        let n = 20 + (h >> 8) as usize % 51;
                        let mut x = h | 1;
                        let mut rnd = |len: usize| -> Vec<u8> { (0..len).map(|_| { x = crate::util::splitmix(x); b"ACGT"[(x >> 33) as usize & 3] }).collect() };
                        let mut v = vec![Rec { id: "long".into(), desc: None, seq: crate::util::Bytes(rnd(12 * n)) }];
                        for j in 0..n {
                            v.push(Rec { id: format!("tiny{}", j), desc: None, seq: crate::util::Bytes(rnd(10 + j % 5)) });
                        }
                        recs = v;
                        mem = Mem::OneRecord;
                        cont = Container::plain_fasta();
                    }
                    Case { recs, cont, k, s, norm, threads, mem, giant: None, via_cli: false, cohabitant, stale }
                })
            })
            .boxed()
    }
    fn check(c: &Case) -> Verdict {
        check_case(c)
    }
}

/// the same check through the executable: k 3..=7, square sizes at the boundaries 1, 2, k*k, 2^20 and anywhere
pub struct Cli;
impl Leg for Cli {
    type Case = Case;
    const NAME: &'static str = "cli";
    fn strategy(tier: Tier) -> BoxedStrategy<Case> {
        (3usize..=7, any::<bool>(), gen::threads_strategy())
            .prop_flat_map(move |(k, norm, threads)| {
                let s = prop_oneof![3 => Just(1u64), 1 => Just(2u64), 1 => Just(3u64), 2 => Just((k * k) as u64), 1 => Just(1u64 << 20), 4 => 1u64..=(1u64 << 20), 2 => 1u64..=64];
                let p = RecParams { max_records: if k >= 7 { 3 } else if k >= 5 { 6 } else { tier.pick(12, 40) }, scale: k, max_len: tier.pick(150, 400), degenerate_w: 2, bounds: [k, 0, 0], nuc_only: false };
                (gen::records_in_container(p), s, prop_oneof![5 => Just(None), 1 => (any::<u16>(), any::<u64>()).prop_map(Some)]).prop_map(move |((mut recs, cont), s, distinct)| {
                    if let Some((pick, seed)) = distinct {
                        gen::plant_distinct(&mut recs, k, pick, seed);
                    }
                    Case { recs, cont, k, s, norm, threads, mem: Mem::Max, giant: None, via_cli: true, cohabitant: None, stale: 0 }
                })
            })
            .boxed()
    }
    fn check(c: &Case) -> Verdict {
        check_case(c)
    }
}

/// one giant record among a few small ones: counts beyond 2^16 and (one case in three) beyond 2^24
pub struct GiantRecs;
impl Leg for GiantRecs {
    type Case = Case;
    const NAME: &'static str = "giant-records";
    fn strategy(tier: Tier) -> BoxedStrategy<Case> {
        let _ = tier;
        (prop_oneof![3 => Just(1usize), 3 => 2usize..=4, 1 => 5usize..=7], gen::square_strategy(), prop::bool::weighted(0.4), gen::threads_strategy(), prop::bool::weighted(0.25))
            .prop_flat_map(move |(k, s, norm, threads, via_cli)| {
                let k = if via_cli { k.max(3) } else { k };
                let p = RecParams { max_records: 3, scale: k, max_len: 100, degenerate_w: 1, bounds: [k, 0, 0], nuc_only: false };
                let giant = prop_oneof![
                    2 => gen::giant(60_000, 3_400_000, b"ACGTN".to_vec()),
                    1 => (prop::sample::select(b"ACGT".to_vec()), ((1usize << 24) + 8)..=((1usize << 24) + 3_000), proptest::collection::vec((any::<u32>(), prop::sample::select(b"ACGTN".to_vec())), 0..=2))
                        .prop_map(|(b, len, edits)| gen::Giant { unit: crate::util::Bytes(vec![b]), len, edits, rand_seed: None, gaps: Vec::new() }),
                ];
                (gen::records(p), giant).prop_map(move |(recs, giant)| Case { recs, cont: Container::plain_fasta(), k, s, norm, threads, mem: Mem::Max, giant: Some(giant), via_cli, cohabitant: None, stale: 0 })
            })
            .boxed()
    }
    fn check(c: &Case) -> Verdict {
        let mut v = check_case(c);
        if let Some(g) = &c.giant {
            let rt = rank_table(c.k);
            let (counts, _) = model::oligo_counts(&g.expand(), &rt);
            let top = counts.iter().copied().max().unwrap_or(0);
            v.class_if(top > (1 << 16), "count>2^16");
            v.class_if(top > (1 << 24), "count>2^24");
        }
        v
    }
}

/// record *counts* beyond 2^16 and 2^17: a few low-complexity reads repeated tens of thousands of times with a
/// few stray reads in between (amplicon-like), so that most columns stay untouched for very many records;
/// per-worker tables recycled between records, 16-bit record stamps and the like
#[derive(Clone, Debug, Serialize, Deserialize)]
pub struct ManyCase {
    pub base: Vec<crate::util::Bytes>,
    pub n: usize,
    /// (position as a fraction of n, read)
    pub strays: Vec<(u32, crate::util::Bytes)>,
    pub k: usize,
    pub s: u64,
    pub norm: bool,
    pub threads: usize,
}

pub struct Many;
impl Leg for Many {
    type Case = ManyCase;
    const NAME: &'static str = "many-records";
    fn strategy(tier: Tier) -> BoxedStrategy<ManyCase> {
        let lows = || prop_oneof![
            3 => (prop::sample::select(b"ACGT".to_vec()), 4usize..=30).prop_map(|(b, l)| crate::util::Bytes(vec![b; l])),
            1 => (proptest::collection::vec(prop::sample::select(b"ACGT".to_vec()), 2..=3), 3usize..=10).prop_map(|(u, r)| crate::util::Bytes(u.repeat(r))),
        ];
        let n = prop_oneof![
            1 => 65_530usize..=65_560,
            1 => 131_060usize..=131_100,
            // a parallel iterator hands each worker table a part of the batch: per-table counts beyond 2^16
            // need several times 2^16 records in the file
            4 => 140_000usize..=tier.pick(330_000, 700_000),
        ];
        (proptest::collection::vec(lows(), 1..=3), n, proptest::collection::vec((any::<u32>(), gen::seq(3, 40, true).prop_map(crate::util::Bytes)), 1..=4), 1usize..=3, gen::square_strategy(), any::<bool>(), prop_oneof![3 => Just(1usize), 1 => 2usize..=4])
            .prop_map(|(base, n, strays, k, s, norm, threads)| ManyCase { base, n, strays, k, s, norm, threads })
            .boxed()
    }
    fn check(c: &ManyCase) -> Verdict {
        let mut v = Verdict::new();
        v.class(if c.n > 131_072 { "records>2^17" } else if c.n > 65_536 { "records>2^16" } else { "records<=2^16" });
        v.nontrivial = true;
        let mut seqs: Vec<&[u8]> = (0..c.n).map(|i| &c.base[i % c.base.len()].0[..]).collect();
        for (f, s) in &c.strays {
            let p = ((*f as u128 * c.n as u128) >> 32) as usize;
            seqs[p.min(c.n - 1)] = &s.0[..];
        }
        let dir = crate::scratch_dir();
        let input = dir.path().join("many.fa");
        {
            let mut text = Vec::with_capacity(c.n * 40);
            for (i, s) in seqs.iter().enumerate() {
                text.extend_from_slice(format!(">r{}\n", i).as_bytes());
                if !s.is_empty() {
                    text.extend_from_slice(s);
                    text.push(b'\n');
                }
            }
            std::fs::write(&input, text).unwrap();
        }
        let out = dir.path().join("out.kcgr");
        let r = guarded(|| {
            let mut cc = OligoCgrComputer::new(io::path_str(&input), io::path_str(&out), c.k, c.s as usize);
            cc.set_threads(c.threads);
            cc.set_norm(c.norm);
            cc.vectorise()
        });
        match r {
            Err(p) => {
                v.fail(crate::engine::panic_sig(&p), format!("k-mer cgr panicked: {}", p));
                return v;
            }
            Ok(Err(e)) => {
                v.fail("vectorise-error", format!("k-mer cgr returned Err({})", e));
                return v;
            }
            Ok(Ok(())) => {}
        }
        let data = std::fs::read(&out).unwrap_or_default();
        let rt = rank_table(c.k);
        let ends: Vec<(f64, f64)> = rt.texts().iter().map(|t| { let p = model::cgr_points(t.as_bytes(), c.s).unwrap(); let l = p.last().unwrap(); (l.0 .0, l.1 .0) }).collect();
        // identical records must give identical lines: each distinct record's line is verified once against the
        // model, every other line byte for byte against the verified line of its record
        let mut verified: std::collections::HashMap<&[u8], &[u8]> = Default::default();
        let mut lines = data.split(|&b| b == b'\n');
        for (i, s) in seqs.iter().enumerate() {
            let line = match lines.next() {
                Some(l) if !(l.is_empty() && i + 1 > seqs.len()) => l,
                _ => {
                    v.fail("row-count", format!("output ends after {} rows, {} records", i, c.n));
                    return v;
                }
            };
            if let Some(known) = verified.get(s) {
                if *known != line {
                    v.fail("kmer-frequency", format!("row {} (record {:?}) is {:?} but an identical earlier record gave {:?}", i, crate::util::Bytes(s.to_vec()), crate::util::trunc(&String::from_utf8_lossy(line), 200), crate::util::trunc(&String::from_utf8_lossy(known), 200)));
                    return v;
                }
                continue;
            }
            let text = String::from_utf8_lossy(line).to_string();
            let tr = match io::parse_tuples(&text, 3) {
                Ok(t) => t,
                Err(e) => {
                    v.fail("malformed-row", format!("row {}: {}", i, e));
                    return v;
                }
            };
            let (counts, total) = model::oligo_counts(s, &rt);
            if tr.len() != rt.len() {
                v.fail("row-width", format!("row {}: {} triples for {} canonical k-mers", i, tr.len(), rt.len()));
                return v;
            }
            for (j, t) in tr.iter().enumerate() {
                let want = if c.norm { if total == 0 { 0.0 } else { counts[j] as f64 / total as f64 } } else { counts[j] as f64 };
                if (t[0], t[1]) != ends[j] || (t[2] - want).abs() > 1e-9 {
                    v.fail(if (t[0], t[1]) != ends[j] { "kmer-position" } else { "kmer-frequency" }, format!("row {} (record {:?}) column {} ({}): ({}, {}, {}) but position ({}, {}) and value {} are expected", i, crate::util::Bytes(s.to_vec()), j, rt.texts()[j], t[0], t[1], t[2], ends[j].0, ends[j].1, want));
                    return v;
                }
            }
            verified.insert(s, line);
        }
        if lines.any(|l| !l.is_empty()) {
            v.fail("row-count", format!("more than {} rows", c.n));
        }
        v
    }
}

pub fn run(ctx: &mut Ctx) {
    let n = ctx.share(ctx.tier.pick(16, 320));
    ctx.run_leg::<Many>(n, false, 6);

    let n = ctx.share(ctx.tier.pick(48, 800));
    ctx.run_leg::<GiantRecs>(n, true, 8);
    let n = ctx.share(ctx.tier.pick(2_400, 40_000));
    ctx.run_leg::<Runs>(n, true, 200);
    let n = ctx.share(ctx.tier.pick(1_200, 20_000));
    ctx.run_leg::<Cli>(n, false, 200);
    super::timeouts_inconclusive(ctx);
}

pub fn replay(leg: &str, case: &serde_json::Value) -> Option<Result<Verdict, String>> {
    match leg {
        "runs" => Some(crate::engine::replay_leg::<Runs>(case)),
        "cli" => Some(crate::engine::replay_leg::<Cli>(case)),
        "many-records" => Some(crate::engine::replay_leg::<Many>(case)),
        "giant-records" => Some(crate::engine::replay_leg::<GiantRecs>(case)),
        _ => None,
    }
}
