//! One Python iterator object driven by a generated script: `next()` a few times, a `for` loop that is left
//! early, `list()`, `iter()`, `list()` again, calls after the end. Judged by a set of possible positions in the
//! model's item list: every call that goes through `__iter__` may either continue where the object stands
//! (what an iterator does) or start again from the first item (what a re-iterable would do); every item that
//! appears has to be the model's item at one of the possible positions, and an object that stops has to stand
//! at the end of the list.
use crate::engine::Verdict;
use crate::gen;
use crate::util::Bytes;
use crate::model;
use proptest::prelude::*;
use serde::{Deserialize, Serialize};

#[derive(Clone, Debug, Serialize, Deserialize)]
pub enum Kind {
    Kmer { k: usize },
    Min { w: usize, m: usize },
}

#[derive(Clone, Debug, Serialize, Deserialize)]
pub enum Step {
    Next(usize),
    List,
    Iter,
    For(usize),
}

#[derive(Clone, Debug, Serialize, Deserialize)]
pub struct PySession {
    pub kind: Kind,
    pub seq: Bytes,
    pub script: Vec<Step>,
}

fn step_strategy() -> BoxedStrategy<Step> {
    prop_oneof![
        3 => prop_oneof![3 => 1usize..=3, 1 => 1usize..=40].prop_map(Step::Next),
        2 => Just(Step::List),
        2 => Just(Step::Iter),
        3 => prop_oneof![3 => 1usize..=3, 1 => 1usize..=40].prop_map(Step::For),
    ]
    .boxed()
}

pub fn strategy(minimiser: bool) -> BoxedStrategy<PySession> {
    let kind = if minimiser {
        gen::wm_strategy(31, 40).prop_map(|(w, m)| Kind::Min { w, m }).boxed()
    } else {
        gen::k_strategy().prop_map(|k| Kind::Kmer { k }).boxed()
    };
    kind.prop_flat_map(|kind| {
        let scale = match &kind {
            Kind::Kmer { k } => *k,
            Kind::Min { w, .. } => *w,
        };
        // a quarter of the strings are long enough for several hundred items (block-wise buffering inside the binding)
        (Just(kind), prop_oneof![3 => gen::seq(scale, 200, false), 1 => gen::seq(scale, 1200, false)], proptest::collection::vec(step_strategy(), 1..=8))
    })
    .prop_map(|(kind, seq, mut script)| {
        // every script ends by draining the object, so that "stops early" is always observable
        script.push(Step::List);
        PySession { kind, seq: Bytes(seq), script }
    })
    .boxed()
}

pub fn check(c: &PySession) -> Verdict {
    let mut v = Verdict::new();
    v.class("python-session");
    let seq = super::c01::utf8_safe(&c.seq.0);
    let (items, req): (Vec<Vec<u64>>, serde_json::Value) = match &c.kind {
        Kind::Kmer { k } => (model::windows(&seq, *k).iter().map(|x| vec![x.1, x.2]).collect(), serde_json::json!({"kind": "kmer", "k": k})),
        Kind::Min { w, m } => (model::minimiser_runs(&seq, *w, *m).iter().map(|x| vec![x.0, x.1 as u64, x.2 as u64]).collect(), serde_json::json!({"kind": "min", "w": w, "m": m})),
    };
    let script: Vec<serde_json::Value> = c
        .script
        .iter()
        .map(|s| match s {
            Step::Next(n) => serde_json::json!(["next", n]),
            Step::List => serde_json::json!(["list"]),
            Step::Iter => serde_json::json!(["iter"]),
            Step::For(n) => serde_json::json!(["for", n]),
        })
        .collect();
    let mut req = req;
    req["op"] = "py_session".into();
    req["seq"] = crate::pyworker::hex(&seq).into();
    req["script"] = script.into();
    let r = match crate::pyworker::ask(&req) {
        Ok(r) => r,
        Err(e) => {
            crate::pyworker::record_error(&mut v, e);
            return v;
        }
    };
    let outs = match r["ok"].as_array() {
        Some(a) if a.len() == c.script.len() => a.clone(),
        _ => {
            crate::pyworker::record_error(&mut v, format!("python answered {}", crate::util::trunc(&r.to_string(), 200)));
            return v;
        }
    };
    let n = items.len();
    // positions the object may stand at
    let mut cand: Vec<usize> = vec![0];
    let mut partial = false;
    let mut after_partial = false;
    for (si, (step, out)) in c.script.iter().zip(outs.iter()).enumerate() {
        let out = out.as_array().cloned().unwrap_or_default();
        if matches!(step, Step::Iter) {
            if out.first().and_then(|x| x.as_bool()) != Some(true) {
                v.fail("python-iter-not-self", format!("step {}: iter(obj) is not the object itself", si));
                return v;
            }
        }
        if !matches!(step, Step::Next(_)) && !cand.contains(&0) {
            cand.push(0);
        }
        if matches!(step, Step::Iter) {
            continue;
        }
        if cand.iter().any(|&p| p > 0 && p < n) {
            after_partial = true;
        }
        let mut ended = matches!(step, Step::List);
        let mut yielded = 0usize;
        for it in out.iter() {
            if it.is_null() {
                ended = true;
                break;
            }
            let item: Vec<u64> = it.as_array().map(|a| a.iter().map(|y| y.as_u64().unwrap_or(u64::MAX)).collect()).unwrap_or_default();
            cand = cand.into_iter().filter(|&p| p < n && items[p] == item).map(|p| p + 1).collect();
            if cand.is_empty() {
                v.fail(
                    "python-session-item",
                    format!("step {} ({:?}), item {} of the step: {:?} is neither the next item of the model's list of {} items nor (after a call through __iter__) its restart ({:?})", si, step, yielded, item, n, c.kind),
                );
                return v;
            }
            yielded += 1;
        }
        if let Step::For(m) = step {
            if yielded < *m {
                ended = true;
            }
        }
        if ended {
            cand.retain(|&p| p == n);
            if cand.is_empty() {
                v.fail("python-session-stops-early", format!("step {} ({:?}): the object stops after {} items of the step although the model's list of {} items is not finished ({:?})", si, step, yielded, n, c.kind));
                return v;
            }
        }
        if yielded > 0 && !ended {
            partial = true;
        }
    }
    v.class_if(after_partial, "python-session-continued-after-partial-use");
    v.class_if(n > 256, "python-session->256-items");
    v.nontrivial = n >= 2 && partial && after_partial;
    v
}
