//! C06 — reader returns every record once, in order, exact bases, for all containers.
use crate::engine::{Ctx, Leg, Tier, Verdict};
use crate::gen::{self, Container, Format, Rec, RecParams};
use crate::io;
use ktio::seq::{get_reader, SeqFormat, Sequences};
use proptest::prelude::*;
use serde::{Deserialize, Serialize};

#[derive(Clone, Debug, Serialize, Deserialize)]
pub struct Case {
    pub recs: Vec<Rec>,
    pub cont: Container,
    /// (record index, target length / 1024): that record's bases are repeated to exceed buffer sizes
    pub stretch: Option<(u16, u8)>,
}

pub fn materialise(c: &Case) -> Vec<Rec> {
    let mut recs = c.recs.clone();
    if let Some((i, kb)) = c.stretch {
        if !recs.is_empty() {
            let idx = crate::util::idx16(i, recs.len());
            let r = &mut recs[idx];
            if !r.seq.0.is_empty() {
                let target = (kb as usize + 9) * 1024;
                let unit = r.seq.0.clone();
                while r.seq.0.len() < target {
                    r.seq.0.extend_from_slice(&unit);
                }
            }
        }
    }
    recs
}

pub fn check_case(c: &Case) -> Verdict {
    let mut v = Verdict::new();
    let recs = materialise(c);
    let dir = crate::scratch_dir();
    let path = io::write_input(dir.path(), "in", &recs, &c.cont);
    let ps = io::path_str(&path);
    let n = recs.len();
    let wrapped = matches!(c.cont.format, Format::Fasta { wrap: Some(_) });
    let members = c.cont.gz.as_ref().map(|m| m.len()).unwrap_or(0);
    let empty_rec = recs.iter().any(|r| r.seq.0.is_empty());
    let long_line = recs.iter().any(|r| r.seq.0.len() > 8192) && !wrapped;
    let text_len = io::serialise_text(&recs, &c.cont).len();
    v.class(c.cont.label());
    v.class_if(wrapped, "wrapped");
    v.class_if(c.cont.crlf, "crlf");
    v.class_if(!c.cont.final_newline, "no-final-newline");
    v.class_if(empty_rec, "empty-record");
    v.class_if(members >= 2, "gz-members>=2");
    v.class_if(long_line, "line>8KiB");
    v.class_if(text_len > 65536, "file>64KiB");
    v.class_if(n == 0, "zero-records");
    v.class_if(recs.iter().any(|r| r.desc.is_some()), "has-description");
    v.nontrivial = n >= 2 && (wrapped || c.cont.crlf || !c.cont.final_newline || empty_rec || members >= 2 || long_line);
    let pre = if members >= 2 { "gz-multimember-" } else { "" };

    let fmt = match SeqFormat::get(&ps) {
        Some(f) => f,
        None => {
            v.fail("format-not-inferred", format!("no format inferred for suffix {:?}", c.cont.suffix()));
            return v;
        }
    };
    let want_fastq = c.cont.is_fastq();
    if matches!(fmt, SeqFormat::Fastq) != want_fastq {
        v.fail("format-wrong", format!("suffix {:?} inferred as {:?}", c.cont.suffix(), fmt));
        return v;
    }
    let got = crate::engine::guarded(|| {
        let reader = get_reader(&ps).unwrap();
        let seqs = Sequences::new(fmt, reader).unwrap();
        seqs.map(|s| (s.n, s.id, s.seq)).collect::<Vec<_>>()
    });
    let got = match got {
        Ok(g) => g,
        Err(p) => {
            v.fail(format!("{}reader-panic", pre), format!("reading a well-formed {} file panicked: {}", c.cont.label(), p));
            return v;
        }
    };
    if got.len() != n {
        v.fail(
            format!("{}record-count", pre),
            format!("{} records read, {} written ({})", got.len(), n, c.cont.label()),
        );
        return v;
    }
    for (i, (gn, gid, gseq)) in got.iter().enumerate() {
        if *gn != i {
            v.fail(format!("{}numbering", pre), format!("record {} carries n={}", i, gn));
            return v;
        }
        if *gid != recs[i].id {
            v.fail(format!("{}id", pre), format!("record {}: id {:?} != {:?} (header line {:?})", i, gid, recs[i].id, io::header_line(&recs[i])));
            return v;
        }
        if *gseq != recs[i].seq.0 {
            v.fail(
                format!("{}bases", pre),
                format!("record {}: {} bases read, {} written; first difference at {:?}", i, gseq.len(), recs[i].seq.0.len(), gseq.iter().zip(recs[i].seq.0.iter()).position(|(a, b)| a != b)),
            );
            return v;
        }
    }
    let stats = crate::engine::guarded(|| {
        let reader = get_reader(&ps).unwrap();
        let s = Sequences::seq_stats(fmt, reader);
        (s.seq_count, s.total_length)
    });
    let total: usize = recs.iter().map(|r| r.seq.0.len()).sum();
    match stats {
        Ok(s) if s == (n, total) => {}
        Ok(s) => v.fail(format!("{}stats", pre), format!("seq_stats = {:?}, iteration delivers ({}, {})", s, n, total)),
        Err(p) => v.fail(format!("{}stats-panic", pre), format!("seq_stats panicked: {}", p)),
    }
    v
}

pub struct Files;
impl Leg for Files {
    type Case = Case;
    const NAME: &'static str = "files";
    fn strategy(tier: Tier) -> BoxedStrategy<Case> {
        let p = RecParams {
            max_records: tier.pick(30, 200),
            scale: 20,
            max_len: tier.pick(400, 3000),
            degenerate_w: 2,
            bounds: [1, 60, 0],
            nuc_only: false,
        };
        (gen::records_in_container(p), prop_oneof![5 => Just(None), 1 => (any::<u16>(), 0u8..60).prop_map(Some)])
            .prop_map(|((recs, cont), stretch)| Case { recs, cont, stretch })
            .boxed()
    }
    fn check(c: &Case) -> Verdict {
        check_case(c)
    }
}

pub fn run(ctx: &mut Ctx) {
    let n = ctx.share(ctx.tier.pick(24_000, 400_000));
    ctx.run_leg::<Files>(n, false, 600);
}

pub fn replay(leg: &str, case: &serde_json::Value) -> Option<Result<Verdict, String>> {
    match leg {
        "files" => Some(crate::engine::replay_leg::<Files>(case)),
        _ => None,
    }
}
