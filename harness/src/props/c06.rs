//! C06 — reader returns every record once, in order, exact bases, for all containers.
use crate::engine::{Ctx, Leg, Tier, Verdict};
use crate::gen::{self, Container, Format, Rec, RecParams};
use crate::io;
use ktio::seq::{get_reader, SeqFormat, Sequences};
use proptest::prelude::*;
use serde::{Deserialize, Serialize};

#[derive(Clone, Debug, Serialize, Deserialize)]
pub struct Case {
    pub recs: Vec<Rec>,
    pub cont: Container,
    /// (record index, target length / 1024): that record's bases are repeated to exceed buffer sizes
    pub stretch: Option<(u16, u8)>,
    /// file name without the format suffix (may contain dots and format-like components)
    #[serde(default = "default_stem")]
    pub stem: String,
    /// every record is written this many times (ids suffixed): many records / very large files
    #[serde(default)]
    pub copies: usize,
    /// every sequence is repeated to at least this many bases
    #[serde(default)]
    pub min_len: usize,
    /// a record start moved onto (or next to, or so that the boundary falls inside its header) a block boundary
    #[serde(default)]
    pub align: Option<gen::Align>,
    /// gzip with a stored first member sized so that the second member starts at this offset of the COMPRESSED
    /// file (target - delta): block boundaries of a buffered reader under the decompressor
    #[serde(default)]
    pub gz_align: Option<(usize, i32)>,
    /// after the file was read, the same path is overwritten with other records of the same sizes (every sequence
    /// reversed) and read again
    #[serde(default)]
    pub reread: bool,
}

fn default_stem() -> String {
    "in".to_string()
}

pub const STEMS: &[&str] = &[
    "in", "reads", "sample.fastq.contigs", "reads.fa.dedup", "ref.fna.mapped", "x.fq.trimmed", "GCF_000005845.2_ASM584v2_genomic", "a.gz.b", ".hidden", "run1.fasta.2024", "UPPER.FA.x", "name with space",
];

pub fn materialise(c: &Case) -> Vec<Rec> {
    let mut recs = c.recs.clone();
    if c.min_len > 0 {
        for r in recs.iter_mut() {
            if !r.seq.0.is_empty() {
                let unit = r.seq.0.clone();
                let mut s = Vec::with_capacity(c.min_len + unit.len());
                while s.len() < c.min_len {
                    s.extend_from_slice(&unit);
                }
                r.seq.0 = s;
            }
        }
    }
    if c.copies > 1 {
        let base = recs.clone();
        recs = Vec::with_capacity(base.len() * c.copies);
        for j in 0..c.copies {
            for r in &base {
                recs.push(Rec { id: format!("{}.{}", r.id, j), desc: r.desc.clone(), seq: r.seq.clone() });
            }
        }
    }
    if let Some((i, kb)) = c.stretch {
        if !recs.is_empty() {
            let idx = crate::util::idx16(i, recs.len());
            let r = &mut recs[idx];
            if !r.seq.0.is_empty() {
                let target = (kb as usize + 9) * 1024;
                let unit = r.seq.0.clone();
                while r.seq.0.len() < target {
                    r.seq.0.extend_from_slice(&unit);
                }
            }
        }
    }
    if let Some(a) = &c.align {
        let _ = gen::align_records_nl(&mut recs, a, c.cont.crlf);
    }
    recs
}

pub fn check_case(c0: &Case) -> Verdict {
    let dir = crate::scratch_dir();
    let mut c = c0.clone();
    let mut recs = materialise(c0);
    if let Some((target, delta)) = c0.gz_align {
        // a stored gzip member of n bytes (n <= 65535) takes 10 + 5 + n + 8 bytes: the next member starts right after it
        let want = (target as i64 - delta as i64 - 23).max(1) as usize;
        let text_len = io::serialise_text(&recs, &c.cont).len();
        if want < 65535 && text_len > want + 10 {
            let mut members = vec![gen::GzMember { cut: 0, stored: true, exact: Some(want) }];
            members.extend(c.cont.gz.clone().unwrap_or_default().into_iter().skip(1).take(2));
            members.push(gen::GzMember { cut: 0, stored: false, exact: None });
            c.cont.gz = Some(members);
        }
    }
    let mut v = check_once(&c, &recs, dir.path());
    if c0.reread && v.fail.is_none() {
        for r in recs.iter_mut() {
            r.seq.0.reverse();
        }
        let v2 = check_once(&c, &recs, dir.path());
        v.class("same-path-read-again-after-rewrite");
        if let Some(f) = v2.fail {
            v.fail(format!("reread-{}", f.sig), format!("the same path overwritten with other records of the same sizes and read again in this process: {}", f.msg));
        }
    }
    v.class_if(c0.gz_align.is_some() && c.cont.gz.as_ref().map(|m| m[0].exact.is_some()).unwrap_or(false), "gz-member-start-on-a-block-boundary");
    v
}

fn check_once(c: &Case, recs: &[Rec], dir: &std::path::Path) -> Verdict {
    let mut v = Verdict::new();
    let recs = recs.to_vec();
    let path = io::write_input(dir, &c.stem, &recs, &c.cont);
    let ps = io::path_str(&path);
    let n = recs.len();
    let wrapped = matches!(c.cont.format, Format::Fasta { wrap: Some(_) });
    let members = c.cont.gz.as_ref().map(|m| m.len()).unwrap_or(0);
    let empty_rec = recs.iter().any(|r| r.seq.0.is_empty());
    let long_line = recs.iter().any(|r| r.seq.0.len() > 8192) && !wrapped;
    let text_len = io::serialise_text(&recs, &c.cont).len();
    v.class(c.cont.label());
    v.class_if(wrapped, "wrapped");
    v.class_if(c.cont.crlf, "crlf");
    v.class_if(!c.cont.final_newline, "no-final-newline");
    v.class_if(empty_rec, "empty-record");
    v.class_if(members >= 2, "gz-members>=2");
    v.class_if(long_line, "line>8KiB");
    v.class_if(text_len > 65536, "file>64KiB");
    v.class_if(text_len > (16 << 20), "file>16MiB");
    v.class_if(n > 65535, "records>65535");
    v.class_if(c.stem.contains('.'), "dotted-stem");
    v.class_if(n == 0, "zero-records");
    v.class_if(recs.iter().any(|r| r.desc.is_some()), "has-description");
    v.nontrivial = n >= 2 && (wrapped || c.cont.crlf || !c.cont.final_newline || empty_rec || members >= 2 || long_line);
    let pre = if members >= 2 { "gz-multimember-" } else { "" };

    let fmt = match SeqFormat::get(&ps) {
        Some(f) => f,
        None => {
            v.fail("format-not-inferred", format!("no format inferred for suffix {:?}", c.cont.suffix()));
            return v;
        }
    };
    let want_fastq = c.cont.is_fastq();
    if matches!(fmt, SeqFormat::Fastq) != want_fastq {
        v.fail("format-wrong", format!("suffix {:?} inferred as {:?}", c.cont.suffix(), fmt));
        return v;
    }
    let got = crate::engine::guarded(|| {
        let reader = get_reader(&ps).unwrap();
        let seqs = Sequences::new(fmt, reader).unwrap();
        seqs.map(|s| (s.n, s.id, s.seq)).collect::<Vec<_>>()
    });
    let got = match got {
        Ok(g) => g,
        Err(p) => {
            v.fail(format!("{}reader-panic", pre), format!("reading a well-formed {} file panicked: {}", c.cont.label(), p));
            return v;
        }
    };
    if got.len() != n {
        v.fail(
            format!("{}record-count", pre),
            format!("{} records read, {} written ({})", got.len(), n, c.cont.label()),
        );
        return v;
    }
    for (i, (gn, gid, gseq)) in got.iter().enumerate() {
        if *gn != i {
            v.fail(format!("{}numbering", pre), format!("record {} carries n={}", i, gn));
            return v;
        }
        if *gid != recs[i].id {
            v.fail(format!("{}id", pre), format!("record {}: id {:?} != {:?} (header line {:?})", i, gid, recs[i].id, io::header_line(&recs[i])));
            return v;
        }
        if *gseq != recs[i].seq.0 {
            v.fail(
                format!("{}bases", pre),
                format!("record {}: {} bases read, {} written; first difference at {:?}", i, gseq.len(), recs[i].seq.0.len(), gseq.iter().zip(recs[i].seq.0.iter()).position(|(a, b)| a != b)),
            );
            return v;
        }
    }
    let stats = crate::engine::guarded(|| {
        let reader = get_reader(&ps).unwrap();
        let s = Sequences::seq_stats(fmt, reader);
        (s.seq_count, s.total_length)
    });
    let total: usize = recs.iter().map(|r| r.seq.0.len()).sum();
    match stats {
        Ok(s) if s == (n, total) => {}
        Ok(s) => v.fail(format!("{}stats", pre), format!("seq_stats = {:?}, iteration delivers ({}, {})", s, n, total)),
        Err(p) => v.fail(format!("{}stats-panic", pre), format!("seq_stats panicked: {}", p)),
    }
    v
}

pub struct Files;
impl Leg for Files {
    type Case = Case;
    const NAME: &'static str = "files";
    fn strategy(tier: Tier) -> BoxedStrategy<Case> {
        let p = RecParams {
            max_records: tier.pick(30, 80),
            scale: 20,
            max_len: tier.pick(400, 1500),
            degenerate_w: 2,
            bounds: [1, 60, 0],
            nuc_only: false,
        };
        (gen::records_in_container(p), prop_oneof![5 => Just(None), 1 => (any::<u16>(), 0u8..60).prop_map(Some)], prop::sample::select(STEMS.to_vec()), prop_oneof![6 => Just(None), 2 => gen::align_strategy(131072).prop_map(Some), 1 => gen::align_strategy(2 << 20).prop_map(Some)], prop_oneof![10 => Just(None), 1 => any::<u16>().prop_map(Some)], prop_oneof![8 => Just(None), 1 => (prop::sample::select(vec![8192usize, 16384, 24576, 32768, 65536 - 8192]), -2i32..=2).prop_map(Some)], prop::bool::weighted(0.15))
            .prop_map(|((recs, mut cont), stretch, stem, align, noname, gz_align, reread)| {
                // an aligned record start refers to the single-line text, LF or CRLF (it may still be compressed)
                if align.is_some() {
                    cont.format = Format::Fasta { wrap: None };
                    cont.suffix %= 3;
                }
                let mut recs = recs;
                // a record without a name (">" or "> description"): the id is the empty first word
                if let (Some(x), false) = (noname, recs.is_empty()) {
                    // (a record with neither a name nor bases is the reader library's end-of-input marker: not generated)
                    let i = crate::util::idx16(x, recs.len());
                    if !recs[i].seq.0.is_empty() {
                        recs[i].id = String::new();
                    }
                }
                // the compressed-offset alignment needs enough text: the records are written several times
                let copies = if gz_align.is_some() { 1 + 70_000 / (recs.iter().map(|r| r.seq.0.len() + 12).sum::<usize>().max(1)) } else { 0 };
                Case { recs, cont, stretch: if align.is_some() { None } else { stretch }, stem: stem.to_string(), copies: copies.min(400), min_len: 0, align, gz_align, reread }
            })
            .boxed()
    }
    fn check(c: &Case) -> Verdict {
        check_case(c)
    }
}

/// very large files: tens of MiB of bases in few records, or > 65535 records
pub struct Huge;
impl Leg for Huge {
    type Case = Case;
    const NAME: &'static str = "huge-files";
    fn strategy(_tier: Tier) -> BoxedStrategy<Case> {
        let p = RecParams { max_records: 6, scale: 20, max_len: 120, degenerate_w: 1, bounds: [1, 60, 0], nuc_only: false };
        // (copies, min_len): 20-40 MiB in a few dozen records, or 70 000+ tiny records
        let shape = prop_oneof![
            2 => (4usize..=10, prop::sample::select(vec![400_000usize, 700_000, 1_500_000])),
            1 => (1usize..=2, Just(17_500_000usize)),
            2 => (14_000usize..=30_000, Just(0usize)),
        ];
        (gen::records_exact(p, 5), gen::container(false), shape, prop::sample::select(STEMS.to_vec()))
            .prop_map(|(recs, cont, (copies, min_len), stem)| {
                // at most two gzip members and no wrapping below 60 keep the cost of one case around a second
                let mut cont = cont;
                if let Some(g) = cont.gz.as_mut() {
                    g.truncate(2);
                }
                if let crate::gen::Format::Fasta { wrap: Some(w) } = &mut cont.format {
                    *w = (*w).max(60);
                }
                let mut recs = recs;
                if min_len >= 10_000_000 {
                    recs.truncate(2);
                }
                Case { recs, cont, stretch: None, stem: stem.to_string(), copies, min_len, align: None, gz_align: None, reread: false }
            })
            .boxed()
    }
    fn check(c: &Case) -> Verdict {
        check_case(c)
    }
}

pub fn run(ctx: &mut Ctx) {
    let n = ctx.share(ctx.tier.pick(16, 160));
    ctx.run_leg::<Huge>(n, false, 8);
    let n = ctx.share(ctx.tier.pick(24_000, 160_000));
    ctx.run_leg::<Files>(n, false, 600);
}

pub fn replay(leg: &str, case: &serde_json::Value) -> Option<Result<Verdict, String>> {
    match leg {
        "files" => Some(crate::engine::replay_leg::<Files>(case)),
        "huge-files" => Some(crate::engine::replay_leg::<Huge>(case)),
        _ => None,
    }
}
