//! C11 — whole-sequence CGR follows the chaos-game midpoint rule inside the square.
use super::c05::Mem;
use crate::engine::{guarded, Ctx, Leg, Tier, Verdict};
use crate::gen::{self, Container, Rec, RecParams};
use crate::io;
use crate::model;
use crate::util::Bytes;
use composition::cgr::CgrComputer;
use proptest::prelude::*;
use serde::{Deserialize, Serialize};

thread_local! {
    static CC: std::cell::RefCell<std::collections::HashMap<u64, std::rc::Rc<CgrComputer>>> = Default::default();
}
fn computer(s: u64) -> std::rc::Rc<CgrComputer> {
    CC.with(|m| {
        let mut m = m.borrow_mut();
        if m.len() > 64 {
            m.clear();
        }
        // the cache keeps up to 64 computers of different square sizes alive side by side
        m.entry(s).or_insert_with(|| std::rc::Rc::new(CgrComputer::new("unused.fa".into(), "unused.out".into(), s as usize))).clone()
    })
}

/// compare one point list with the exact model
pub fn check_points(got: &[(f64, f64)], seq: &[u8], s: u64) -> Result<(), (String, String)> {
    let want = model::cgr_points(seq, s).expect("nucleotide string");
    if got.len() != want.len() {
        return Err(("point-count".into(), format!("{} points for {} bases", got.len(), want.len())));
    }
    let tol = s as f64 * 2f64.powi(-48);
    let mut xb: Vec<bool> = Vec::new();
    let mut yb: Vec<bool> = Vec::new();
    let mut prev = (s as f64 / 2.0, s as f64 / 2.0);
    for (i, (g, w)) in got.iter().zip(want.iter()).enumerate() {
        let (bx, by) = model::cgr_corner_bits(seq[i]).unwrap();
        xb.push(bx);
        yb.push(by);
        // the rule itself, on the reported points: point i is the midpoint between the reported point i-1
        // and the corner, to the precision of a double at that magnitude (4 ulp; sound both for a step-wise
        // implementation and for one that computes every point to half an ulp from the bases). Near the
        // corner coordinate 0 the values get arbitrarily small, so an absolute tolerance would not see
        // a point that leaves its sub-square after a long run of one corner coordinate.
        for (axis, gv, pv, corner) in [("x", g.0, prev.0, if bx { s as f64 } else { 0.0 }), ("y", g.1, prev.1, if by { s as f64 } else { 0.0 })] {
            let mid = (pv + corner) / 2.0;
            if !((gv - mid).abs() <= 4.0 * mid.abs() * f64::EPSILON + 4.0 * f64::MIN_POSITIVE) {
                return Err((
                    "not-the-midpoint".into(),
                    format!("point {} ({}), {}: {:e} is not the midpoint {:e} between the previous point's {:e} and the corner's {:e} (S={})", i, seq[i] as char, axis, gv, mid, pv, corner, s),
                ));
            }
        }
        prev = *g;
        for (axis, gv, (wv, exact)) in [("x", g.0, w.0), ("y", g.1, w.1)] {
            let ok = if exact { gv == wv } else { (gv - wv).abs() <= tol };
            if !ok || !gv.is_finite() {
                return Err((
                    "point-value".into(),
                    format!("point {} ({}), {}: {} but the midpoint rule gives {}{} (S={})", i, seq[i] as char, axis, gv, wv, if exact { " exactly" } else { "" }, s),
                ));
            }
        }
        // the last j bases confine the point to a closed sub-square of side S / 2^j
        let j = (i + 1).min(20);
        let lx: Vec<bool> = xb[i + 1 - j..].iter().rev().copied().collect();
        let ly: Vec<bool> = yb[i + 1 - j..].iter().rev().copied().collect();
        let (xlo, xhi) = model::cgr_subinterval(&lx, s);
        let (ylo, yhi) = model::cgr_subinterval(&ly, s);
        if g.0 < xlo || g.0 > xhi || g.1 < ylo || g.1 > yhi {
            return Err(("outside-subsquare".into(), format!("point {} = ({}, {}) is outside the sub-square [{}, {}] x [{}, {}] fixed by the last {} bases", i, g.0, g.1, xlo, xhi, ylo, yhi, j)));
        }
    }
    Ok(())
}

#[derive(Clone, Debug, Serialize, Deserialize)]
pub struct OneCase {
    pub seq: Bytes,
    pub suffix: Bytes,
    pub s: u64,
}

pub fn check_one(c: &OneCase) -> Verdict {
    let mut v = Verdict::new();
    let cc = computer(c.s);
    let distinct: std::collections::HashSet<u8> = c.seq.iter().filter_map(|&b| model::base(b)).collect();
    v.nontrivial = c.seq.len() >= 5 && distinct.len() >= 3;
    v.class_if(c.seq.len() > 52, "len>52");
    v.class_if(c.seq.iter().any(|b| b"Uuacgt".contains(b)), "U-or-lower");
    v.class(match c.s { 1 => "S=1", 2..=16 => "S<=16", 17..=1024 => "S<=1024", _ => "S>1024" });
    let got = match cc.verif_vectorise_one(&c.seq) {
        Ok(g) => g,
        Err(e) => {
            v.fail("nucleotides-rejected", format!("a pure nucleotide string was rejected: {}", e));
            return v;
        }
    };
    if let Err((s, m)) = check_points(&got, &c.seq, c.s) {
        v.fail(s, m);
        return v;
    }
    // prefix determinism
    let mut ext = c.seq.0.clone();
    ext.extend_from_slice(&c.suffix);
    match cc.verif_vectorise_one(&ext) {
        Ok(g2) => {
            if g2.len() != ext.len() || g2[..got.len()] != got[..] {
                v.fail("prefix-dependence", "points of a prefix change when more bases follow");
            }
        }
        Err(e) => v.fail("nucleotides-rejected", format!("a pure nucleotide string was rejected: {}", e)),
    }
    v
}

pub struct One;
impl Leg for One {
    type Case = OneCase;
    const NAME: &'static str = "vectorise-one";
    fn strategy(tier: Tier) -> BoxedStrategy<OneCase> {
        let max = tier.pick(300, 5000);
        (gen::nuc_seq(8, max), gen::nuc_seq(4, 40), gen::square_strategy())
            .prop_map(|(seq, suffix, s)| OneCase { seq: Bytes(seq), suffix: Bytes(suffix), s })
            .boxed()
    }
    fn check(c: &OneCase) -> Verdict {
        check_one(c)
    }
}

// rejection, direct
#[derive(Clone, Debug, Serialize, Deserialize)]
pub struct RejectCase {
    pub seq: Bytes,
    pub s: u64,
}

pub fn check_reject(c: &RejectCase) -> Verdict {
    let mut v = Verdict::new();
    v.class("reject-direct");
    v.nontrivial = c.seq.len() >= 2;
    let cc = computer(c.s);
    match guarded(|| cc.verif_vectorise_one(&c.seq)) {
        Ok(Ok(points)) => v.fail(
            "foreign-byte-accepted",
            format!("a string with a non-nucleotide byte yielded {} coordinates instead of an error", points.len()),
        ),
        Ok(Err(_)) | Err(_) => {}
    }
    v
}

pub struct Reject;
impl Leg for Reject {
    type Case = RejectCase;
    const NAME: &'static str = "reject-one";
    fn strategy(_tier: Tier) -> BoxedStrategy<RejectCase> {
        (gen::nuc_seq(8, 200), any::<u16>(), gen::foreign(false), gen::square_strategy())
            .prop_map(|(mut seq, pos, fb, s)| {
                let i = crate::util::idx16(pos, seq.len() + 1);
                seq.insert(i, fb);
                RejectCase { seq: Bytes(seq), s }
            })
            .boxed()
    }
    fn check(c: &RejectCase) -> Verdict {
        check_reject(c)
    }
}

// ---------------------------------------------------------------------------------------------
// file path

#[derive(Clone, Debug, Serialize, Deserialize)]
pub struct FileCase {
    pub recs: Vec<Rec>,
    pub cont: Container,
    pub s: u64,
    pub threads: usize,
    pub mem: Mem,
    /// (record index, position, byte): insert a foreign byte -> the run must be refused
    pub poison: Option<(u16, u16, u8)>,
    /// the record list is written this many times (ids suffixed): batches of hundreds of records
    #[serde(default)]
    pub copies: usize,
    /// bytes of left-over text at the output path before the run
    #[serde(default)]
    pub stale: u32,
}

pub fn check_file(c: &FileCase) -> Verdict {
    let mut v = Verdict::new();
    let mut recs = c.recs.clone();
    let mut bad: Option<usize> = None;
    if c.copies > 1 {
        let base = recs.clone();
        recs = Vec::with_capacity(base.len() * c.copies);
        for j in 0..c.copies {
            for r in &base {
                recs.push(Rec { id: format!("{}.{}", r.id, j), desc: r.desc.clone(), seq: r.seq.clone() });
            }
        }
        v.class_if(recs.len() > 256, "records>256");
    }
    if let Some((ri, pos, b)) = c.poison {
        if !recs.is_empty() {
            let i = crate::util::idx16(ri, recs.len());
            let p = crate::util::idx16(pos, recs[i].seq.0.len() + 1);
            recs[i].seq.0.insert(p, b);
            bad = Some(i);
        }
    }
    let dir = crate::scratch_dir();
    let input = io::write_input(dir.path(), "in", &recs, &c.cont);
    let out = dir.path().join("out.cgr");
    io::set_stale(c.stale as usize);
    io::plant_stale(&out);
    io::set_stale(0);
    v.class_if(c.stale > 0, "output-path-holds-an-earlier-result");
    let mem = c.mem.bytes(&recs);
    let batches = c.mem.batches(&recs);
    v.class(match batches { 0 | 1 => "batches<=1", 2 => "batches=2", _ => "batches>=3" });
    v.class_if(bad.is_some(), "reject-file");
    v.class(c.cont.label());
    let r = guarded(|| {
        let mut cc = CgrComputer::new(io::path_str(&input), io::path_str(&out), c.s as usize);
        cc.set_threads(c.threads);
        cc.verif_set_max_memory(mem);
        cc.vectorise()
    });
    let data = std::fs::read(&out).unwrap_or_default();
    v.nontrivial = recs.len() >= 2 && recs.iter().any(|r| r.seq.0.len() >= 5);
    match bad {
        None => {
            match r {
                Err(p) => {
                    v.fail(crate::engine::panic_sig(&p), format!("cgr panicked on nucleotide-only input: {}", p));
                    return v;
                }
                Ok(Err(e)) => {
                    v.fail("vectorise-error", format!("cgr returned Err({}) on nucleotide-only input", e));
                    return v;
                }
                Ok(Ok(())) => {}
            }
            let lines = match io::lines_strict(&data) {
                Ok(l) => l,
                Err(e) => {
                    v.fail("malformed-output", e);
                    return v;
                }
            };
            if lines.len() != recs.len() {
                v.fail("row-count", format!("{} rows for {} records", lines.len(), recs.len()));
                return v;
            }
            for (i, (l, rec)) in lines.iter().zip(recs.iter()).enumerate() {
                let pts = match io::parse_tuples(l, 2) {
                    Ok(p) => p,
                    Err(e) => {
                        v.fail("malformed-row", format!("row {}: {}", i, e));
                        return v;
                    }
                };
                let pts: Vec<(f64, f64)> = pts.iter().map(|p| (p[0], p[1])).collect();
                if let Err((s, m)) = check_points(&pts, &rec.seq, c.s) {
                    v.fail(s, format!("row {}: {}", i, m));
                    return v;
                }
            }
        }
        Some(bi) => {
            if let Ok(Ok(())) = r {
                v.fail("foreign-byte-accepted", format!("record {} holds a non-nucleotide byte but the run reported success", bi));
                return v;
            }
            // only correct rows of records before the offending one may have been written
            let text = String::from_utf8_lossy(&data).to_string();
            let mut complete: Vec<&str> = text.split('\n').collect();
            let partial = complete.pop().unwrap_or("");
            if complete.len() > bi || (complete.len() == bi && !partial.is_empty()) {
                v.fail(
                    "coordinates-for-rejected-record",
                    format!("record {} must be rejected, yet the output holds {} complete rows{}", bi, complete.len(), if partial.is_empty() { "" } else { " and a partial one" }),
                );
                return v;
            }
            for (i, l) in complete.iter().enumerate() {
                let ok = io::parse_tuples(l, 2)
                    .map_err(|e| ("malformed-row".to_string(), e))
                    .and_then(|pts| check_points(&pts.iter().map(|p| (p[0], p[1])).collect::<Vec<_>>(), &recs[i].seq, c.s));
                if let Err((s, m)) = ok {
                    v.fail(s, format!("row {} (before the rejected record): {}", i, m));
                    return v;
                }
            }
        }
    }
    v
}

fn gen_uniq(mut v: Vec<Rec>) -> Vec<Rec> {
    for (i, r) in v.iter_mut().enumerate() {
        if i >= 3 && (r.id == "s0" || r.id == "s1" || r.id == "big") {
            r.id.push_str("_x");
        }
    }
    v
}

pub struct Files;
impl Leg for Files {
    type Case = FileCase;
    const NAME: &'static str = "files";
    fn strategy(tier: Tier) -> BoxedStrategy<FileCase> {
        let p = RecParams { max_records: tier.pick(20, 100), scale: 8, max_len: tier.pick(120, 600), degenerate_w: 1, bounds: [1, 0, 0], nuc_only: true };
        (
            gen::records_in_container(p),
            gen::square_strategy(),
            gen::threads_strategy(),
            prop::sample::select(vec![Mem::OneByte, Mem::ThreeRecords, Mem::Half, Mem::Max]),
            // the offending byte: the usual ambiguity codes, or any printable non-nucleotide character (a pre-check that
            // tests several bytes at once may let some values through that a table lookup rejects)
            prop_oneof![6 => Just(None), 1 => (any::<u16>(), any::<u16>(), gen::foreign(true)).prop_map(Some), 2 => (any::<u16>(), any::<u16>(), (0x21u8..=0x7e).prop_map(|b| if crate::model::is_base(b) || b == b'>' || b == b'@' || b == b'+' { b'N' } else { b })).prop_map(Some)],
            prop_oneof![8 => Just(1usize), 1 => 8usize..=40],
            io::stale_strategy(),
        )
            .prop_map(|((recs, cont), s, threads, mem, poison, copies, stale)| {
                // a fifteenth of the cases: two short records, then one of 27 000 - 45 000 bases (more than a megabyte of
                // text in one batch), then the generated ones; batch limit = the first record's length
                let h = crate::util::fnv64(format!("{}:{}:{}", recs.len(), s, threads).as_bytes());
                let (mut recs, mut mem, mut copies) = (recs, mem, copies);
                if h % 15 == 4 && poison.is_none() {
                    let mut x = h | 1;
                    let mut rnd = |len: usize| -> Vec<u8> { (0..len).map(|_| { x = crate::util::splitmix(x); b"ACGT"[(x >> 33) as usize & 3] }).collect() };
                    let mut v = vec![
                        Rec { id: "s0".into(), desc: None, seq: crate::util::Bytes(rnd(50)) },
                        Rec { id: "s1".into(), desc: None, seq: crate::util::Bytes(rnd(40)) },
                        Rec { id: "big".into(), desc: None, seq: crate::util::Bytes(rnd(27_000 + (h >> 8) as usize % 18_000)) },
                    ];
                    v.extend(recs.into_iter().take(6));
                    recs = gen_uniq(v);
                    mem = Mem::OneRecord;
                    copies = 1;
                }
                FileCase { recs, cont, s, threads, mem, poison, copies, stale }
            })
            .boxed()
    }
    fn check(c: &FileCase) -> Verdict {
        check_file(c)
    }
}

/// pykmertools.CgrComputer.vectorise_one against the exact model; ValueError exactly on a foreign byte
#[derive(Clone, Debug, Serialize, Deserialize)]
pub struct PyCase {
    pub seq: Bytes,
    pub s: u64,
}

pub struct Python;
impl Leg for Python {
    type Case = PyCase;
    const NAME: &'static str = "python";
    fn strategy(_tier: Tier) -> BoxedStrategy<PyCase> {
        let nuc = (gen::nuc_seq(8, 300), gen::square_strategy()).prop_map(|(seq, s)| PyCase { seq: Bytes(seq), s });
        let bad = (gen::nuc_seq(8, 120), any::<u16>(), gen::foreign(false), gen::square_strategy()).prop_map(|(mut seq, pos, fb, s)| {
            let i = crate::util::idx16(pos, seq.len() + 1);
            seq.insert(i, fb);
            PyCase { seq: Bytes(seq), s }
        });
        prop_oneof![3 => nuc, 2 => bad].boxed()
    }
    fn check(c: &PyCase) -> Verdict {
        let mut v = Verdict::new();
        let seq = super::c01::utf8_safe(&c.seq);
        let all_nuc = seq.iter().all(|&b| model::is_base(b));
        v.class(if all_nuc { "python-nucleotides" } else { "python-reject" });
        v.class_if(seq.iter().any(|&b| b >= 0x80), "non-ascii");
        v.nontrivial = seq.len() >= 3;
        match crate::pyworker::ask(&serde_json::json!({"op": "cgr", "s": c.s, "seq": crate::pyworker::hex(&seq)})) {
            Err(e) => crate::pyworker::record_error(&mut v, e),
            Ok(r) => {
                if all_nuc {
                    match r["ok"].as_array() {
                        None => v.fail("python-nucleotides-rejected", format!("pykmertools.CgrComputer rejected a nucleotide string: {}", crate::util::trunc(&r.to_string(), 200))),
                        Some(a) => {
                            let pts: Vec<(f64, f64)> = a.iter().map(|p| (p[0].as_f64().unwrap_or(f64::NAN), p[1].as_f64().unwrap_or(f64::NAN))).collect();
                            if let Err((s, m)) = check_points(&pts, &seq, c.s) {
                                v.fail(format!("python-{}", s), format!("pykmertools.CgrComputer({}).vectorise_one: {}", c.s, m));
                            }
                        }
                    }
                } else if r.get("value_error").is_none() {
                    v.fail("python-foreign-byte-accepted", format!("a string with a non-nucleotide character did not raise ValueError: {}", crate::util::trunc(&r.to_string(), 200)));
                }
            }
        }
        v
    }
}

/// long and low-complexity sequences (8 000 - 70 000 bases; 1.2 million in the thorough tier): runs of
/// one corner coordinate that take a point tens of thousands of halvings towards an edge, lengths beyond
/// any block-wise fast path; through the library routine and through pykmertools.CgrComputer
#[derive(Clone, Debug, Serialize, Deserialize)]
pub struct LongCase {
    pub giant: gen::Giant,
    pub s: u64,
    pub python: bool,
}

pub struct Long;
impl Leg for Long {
    type Case = LongCase;
    const NAME: &'static str = "long-sequences";
    fn strategy(tier: Tier) -> BoxedStrategy<LongCase> {
        let hi = tier.pick(70_000, 1_200_000);
        (prop_oneof![3 => gen::giant(8_000, hi, b"ACGTUacgtu".to_vec()), 1 => gen::giant_random(8_000, hi, b"ACGTU".to_vec())], gen::square_strategy(), any::<bool>())
            .prop_map(|(mut giant, s, python)| {
                // nucleotides only: no stretches of N here
                giant.gaps.clear();
                LongCase { python: python && giant.rand_seed.is_none(), giant, s }
            })
            .boxed()
    }
    fn check(c: &LongCase) -> Verdict {
        let mut v = Verdict::new();
        let seq = c.giant.expand();
        v.class(c.giant.label());
        v.class(if c.python { "long-python" } else { "long-library" });
        v.nontrivial = true;
        // longest run of bases sharing a zero corner coordinate (x: A or C, y: A or T/U)
        let mut best = 0usize;
        for pick in [0usize, 1] {
            let mut run = 0usize;
            for &b in &seq {
                let (bx, by) = model::cgr_corner_bits(b).unwrap();
                if !(if pick == 0 { bx } else { by }) {
                    run += 1;
                    best = best.max(run);
                } else {
                    run = 0;
                }
            }
        }
        v.class_if(best >= 75, "zero-corner-run>=75");
        v.class_if(best >= 1100, "zero-corner-run>=1100(subnormal)");
        let pts: Vec<(f64, f64)> = if c.python {
            match crate::pyworker::ask(&serde_json::json!({"op": "cgr", "s": c.s, "giant": c.giant.to_json()})) {
                Err(e) => {
                    crate::pyworker::record_error(&mut v, e);
                    return v;
                }
                Ok(r) => match r["ok"].as_array() {
                    None => {
                        v.fail("python-nucleotides-rejected", format!("pykmertools.CgrComputer rejected a nucleotide string: {}", crate::util::trunc(&r.to_string(), 200)));
                        return v;
                    }
                    Some(a) => a.iter().map(|p| (p[0].as_f64().unwrap_or(f64::NAN), p[1].as_f64().unwrap_or(f64::NAN))).collect(),
                },
            }
        } else {
            match computer(c.s).verif_vectorise_one(&seq) {
                Ok(g) => g,
                Err(e) => {
                    v.fail("nucleotides-rejected", format!("a pure nucleotide string was rejected: {}", e));
                    return v;
                }
            }
        };
        if let Err((s, m)) = check_points(&pts, &seq, c.s) {
            v.fail(if c.python { format!("python-{}", s) } else { s }, format!("{} bases: {}", seq.len(), m));
        }
        v
    }
}

pub fn run(ctx: &mut Ctx) {
    let n = ctx.share(ctx.tier.pick(160, 3_200));
    ctx.run_leg::<Long>(n, false, 12);

    let n = ctx.share(ctx.tier.pick(30_000, 400_000));
    ctx.run_leg::<Python>(n, false, 1000);
    let n = ctx.share(ctx.tier.pick(40_000, 600_000));
    ctx.run_leg::<One>(n, false, 2000);
    let n = ctx.share(ctx.tier.pick(10_000, 200_000));
    ctx.run_leg::<Reject>(n, false, 1000);
    let n = ctx.share(ctx.tier.pick(4_000, 60_000));
    ctx.run_leg::<Files>(n, true, 200);
    crate::pyworker::infra_inconclusive(ctx);
}

pub fn replay(leg: &str, case: &serde_json::Value) -> Option<Result<Verdict, String>> {
    match leg {
        "vectorise-one" => Some(crate::engine::replay_leg::<One>(case)),
        "reject-one" => Some(crate::engine::replay_leg::<Reject>(case)),
        "files" => Some(crate::engine::replay_leg::<Files>(case)),
        "python" => Some(crate::engine::replay_leg::<Python>(case)),
        "long-sequences" => Some(crate::engine::replay_leg::<Long>(case)),
        _ => None,
    }
}
