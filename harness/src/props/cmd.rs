//! One abstract description of a kmertools invocation that can be executed through the built
//! executable (black box) or through the library with the *documented* meaning of the options.
//! Used by C15, C16 and C17.
#![allow(dead_code)]
use crate::cli::{run_cli, CliOut};
use crate::engine::guarded;
use crate::io;
use composition::{cgr::CgrComputer, oligo::OligoComputer, oligocgr::OligoCgrComputer};
use counter::CountComputer;
use coverage::CovComputer;
use serde::{Deserialize, Serialize};
use std::collections::BTreeMap;
use std::path::Path;

#[derive(Clone, Copy, Debug, Serialize, Deserialize, PartialEq, Eq)]
pub enum Sub {
    Oligo,
    Cgr,
    KCgr,
    Cov,
    Min,
    Ctr,
}

#[derive(Clone, Copy, Debug, Serialize, Deserialize, PartialEq, Eq)]
pub enum Preset {
    Csv,
    Tsv,
    Spc,
}

impl Preset {
    pub fn name(self) -> &'static str {
        match self {
            Preset::Csv => "csv",
            Preset::Tsv => "tsv",
            Preset::Spc => "spc",
        }
    }
    pub fn delim(self) -> &'static str {
        match self {
            Preset::Csv => ",",
            Preset::Tsv => "\t",
            Preset::Spc => " ",
        }
    }
}

#[derive(Clone, Debug, Serialize, Deserialize, PartialEq)]
pub struct Cmd {
    pub sub: Sub,
    /// k (oligo, kcgr, cov, ctr)
    pub k: u64,
    pub counts: bool,
    pub preset: Preset,
    pub header: bool,
    /// 0 = auto
    pub threads: usize,
    /// oligo only: read the input from stdin ("-i -")
    pub stdin: bool,
    pub vec_size: Option<u64>,
    pub bin_size: u64,
    pub bin_count: u64,
    pub memory: u64,
    /// cov: use the alternative counting input
    pub alt: bool,
    pub m: u64,
    pub w: u64,
    pub m2s: bool,
    pub acgt: bool,
    /// library-only knobs (not reachable through the CLI): memory ceiling in GB for ctr/cov,
    /// keep temporary chunk files (merge(false))
    pub lib_mem_gb: Option<f64>,
    pub lib_keep_temps: bool,
    /// how the options are spelled on the command line: two bits per option, in the order they are
    /// pushed (0 = "-k 5", 1 = "--k-size 5", 2 = "--k-size=5", 3 = "-k5"); flags use bit 0 only
    #[serde(default)]
    pub spell: u64,
    /// leave out every option whose value is its documented default
    #[serde(default)]
    pub omit_defaults: bool,
    /// replace the value of one option (named by its short form) by arbitrary text (refusal tests)
    #[serde(default)]
    pub override_opt: Option<(String, String)>,
    /// environment of executable runs: bits 0-1 RAYON_NUM_THREADS unset/1/2/7, bit 2 relative paths from the
    /// scratch directory as working directory, bit 3 a Turkish locale, bit 4 a bare environment (PATH only),
    /// bits 5-6 the process may use only 1 / 2 / 3 CPUs
    #[serde(default)]
    pub env_profile: u8,
}

/// pushes options in the generated spelling
struct ArgW {
    a: Vec<String>,
    spell: u64,
    omit: bool,
    n: u32,
    over: Option<(String, String)>,
}

impl ArgW {
    fn style(&mut self) -> u64 {
        let s = (self.spell >> (2 * (self.n % 32))) & 3;
        self.n += 1;
        s
    }
    /// an option with a value; `default` = its documented default rendered as text
    fn opt(&mut self, short: &str, long: &str, val: &str, default: Option<&str>) {
        let st = self.style();
        let over = self.over.clone();
        let (val, forced) = match &over {
            Some((o, v)) if o == short => (v.as_str(), true),
            _ => (val, false),
        };
        if self.omit && default == Some(val) && !forced {
            return;
        }
        // numbers in other decimal spellings the argument parser accepts: zero-padded, with a plus sign
        let respelt: String;
        let val = if !forced && !val.is_empty() && val.len() <= 18 && val.bytes().all(|b| b.is_ascii_digit()) {
            match ((self.spell >> 44) >> (3 * (self.n % 6))) & 7 {
                5 => {
                    respelt = format!("0{}", val);
                    respelt.as_str()
                }
                6 => {
                    respelt = format!("000{}", val);
                    respelt.as_str()
                }
                7 => {
                    respelt = format!("+{}", val);
                    respelt.as_str()
                }
                _ => val,
            }
        } else {
            val
        };
        match st {
            0 => self.a.extend([short.to_string(), val.to_string()]),
            1 => self.a.extend([long.to_string(), val.to_string()]),
            2 => self.a.push(format!("{}={}", long, val)),
            // "-k5" cannot carry a value that starts with '-' (stdin marker) or is empty
            _ if !val.is_empty() && !val.starts_with('-') => self.a.push(format!("{}{}", short, val)),
            _ => self.a.extend([short.to_string(), val.to_string()]),
        }
    }
    fn flag(&mut self, short: Option<&str>, long: &str, on: bool) {
        let st = self.style();
        if on {
            self.a.push(match short {
                Some(s) if st & 1 == 0 => s.to_string(),
                _ => long.to_string(),
            });
        }
    }
}

impl Cmd {
    pub fn base(sub: Sub) -> Cmd {
        Cmd {
            sub,
            k: match sub {
                Sub::Oligo | Sub::KCgr => 3,
                Sub::Cov => 15,
                Sub::Ctr => 12,
                _ => 0,
            },
            counts: false,
            preset: Preset::Spc,
            header: false,
            threads: 2,
            stdin: false,
            vec_size: None,
            bin_size: 16,
            bin_count: 16,
            memory: 6,
            alt: false,
            m: 10,
            w: 0,
            m2s: false,
            acgt: false,
            lib_mem_gb: None,
            lib_keep_temps: false,
            spell: 0,
            omit_defaults: false,
            override_opt: None,
            env_profile: 0,
        }
    }

    /// output is a directory (cov, ctr) rather than a file
    pub fn out_is_dir(&self) -> bool {
        matches!(self.sub, Sub::Cov | Sub::Ctr)
    }

    /// names of the result files relative to the output location ("" = the output path itself)
    pub fn result_files(&self) -> Vec<&'static str> {
        match self.sub {
            Sub::Cov => vec!["kmers.vectors", "kmers.counts"],
            Sub::Ctr => vec!["kmers.counts"],
            _ => vec![""],
        }
    }

    pub fn args(&self, input: &str, alt: Option<&str>, out: &str) -> Vec<String> {
        let mut w = ArgW { a: Vec::new(), spell: self.spell, omit: self.omit_defaults, n: 0, over: self.override_opt.clone() };
        let t = self.threads.to_string();
        let k = self.k.to_string();
        match self.sub {
            Sub::Oligo => {
                w.a.extend(["comp", "oligo"].map(String::from));
                w.opt("-i", "--input", if self.stdin { "-" } else { input }, None);
                w.opt("-o", "--output", out, None);
                w.opt("-k", "--k-size", &k, Some("3"));
                w.opt("-p", "--preset", self.preset.name(), Some("spc"));
                w.opt("-t", "--threads", &t, Some("0"));
                w.flag(Some("-c"), "--counts", self.counts);
                w.flag(Some("-H"), "--header", self.header);
            }
            Sub::Cgr | Sub::KCgr => {
                w.a.extend(["comp", "cgr"].map(String::from));
                w.opt("-i", "--input", input, None);
                w.opt("-o", "--output", out, None);
                w.opt("-t", "--threads", &t, Some("0"));
                if self.sub == Sub::KCgr {
                    w.opt("-k", "--k-size", &k, None);
                    w.flag(Some("-c"), "--counts", self.counts);
                }
                if let Some(v) = self.vec_size {
                    w.opt("-v", "--vec-size", &v.to_string(), None);
                }
            }
            Sub::Cov => {
                w.a.push("cov".into());
                w.opt("-i", "--input", input, None);
                w.opt("-o", "--output", out, None);
                w.opt("-k", "--k-size", &k, Some("15"));
                w.opt("-p", "--preset", self.preset.name(), Some("spc"));
                w.opt("-t", "--threads", &t, Some("0"));
                w.opt("-s", "--bin-size", &self.bin_size.to_string(), Some("16"));
                w.opt("-c", "--bin-count", &self.bin_count.to_string(), Some("16"));
                w.opt("-m", "--memory", &self.memory.to_string(), Some("6"));
                w.flag(None, "--counts", self.counts);
                if self.alt {
                    w.opt("-a", "--alt-input", alt.unwrap_or(input), None);
                }
            }
            Sub::Min => {
                w.a.push("min".into());
                w.opt("-i", "--input", input, None);
                w.opt("-o", "--output", out, None);
                w.opt("-m", "--m-size", &self.m.to_string(), Some("10"));
                w.opt("-w", "--w-size", &self.w.to_string(), Some("0"));
                w.opt("-t", "--threads", &t, Some("0"));
                w.opt("-p", "--preset", if self.m2s { "m2s" } else { "s2m" }, Some("s2m"));
            }
            Sub::Ctr => {
                w.a.push("ctr".into());
                w.opt("-i", "--input", input, None);
                w.opt("-o", "--output", out, None);
                w.opt("-k", "--k-size", &k, None);
                w.opt("-m", "--memory", &self.memory.to_string(), Some("6"));
                w.opt("-t", "--threads", &t, Some("0"));
                w.flag(Some("-a"), "--acgt", self.acgt);
            }
        }
        w.a
    }

    /// default square size as documented for `comp cgr`: 1 for whole sequences, k^2 in k-mer mode
    pub fn square(&self) -> u64 {
        match (self.sub, self.vec_size) {
            (_, Some(v)) => v,
            (Sub::KCgr, None) => self.k * self.k,
            _ => 1,
        }
    }
}

#[derive(Debug, Default)]
pub struct Outcome {
    pub code: Option<i32>,
    pub signal: Option<i32>,
    pub stderr: String,
    pub panic: Option<String>,
    pub timed_out: bool,
    /// library call returned Err
    pub lib_err: Option<String>,
    pub files: BTreeMap<String, Vec<u8>>,
    pub out_exists: bool,
}

impl Outcome {
    pub fn clean(&self) -> bool {
        self.panic.is_none() && !self.timed_out && self.lib_err.is_none() && (self.code.is_none() || self.code == Some(0)) && self.signal.is_none()
    }
    pub fn describe(&self) -> String {
        format!(
            "exit {:?} signal {:?} timed_out {} panic {:?} lib_err {:?} stderr {:?}",
            self.code,
            self.signal,
            self.timed_out,
            self.panic,
            self.lib_err,
            crate::util::trunc(&self.stderr, 400)
        )
    }
}

fn collect(cmd: &Cmd, out: &Path, o: &mut Outcome) {
    o.out_exists = out.exists();
    for f in cmd.result_files() {
        let p = if f.is_empty() { out.to_path_buf() } else { out.join(f) };
        if let Ok(d) = std::fs::read(&p) {
            o.files.insert(f.to_string(), d);
        }
    }
}

pub fn run_via_cli(cmd: &Cmd, input: &Path, alt: Option<&Path>, out: &Path, stdin_data: Option<&[u8]>) -> Outcome {
    run_via_program(cmd, input, alt, out, stdin_data, false)
}

/// through `pykmertools.run_cli` (the console script of the pip/conda package)
pub fn run_via_py_entry(cmd: &Cmd, input: &Path, alt: Option<&Path>, out: &Path, stdin_data: Option<&[u8]>) -> Outcome {
    run_via_program(cmd, input, alt, out, stdin_data, true)
}

fn run_via_program(cmd: &Cmd, input: &Path, alt: Option<&Path>, out: &Path, stdin_data: Option<&[u8]>, py: bool) -> Outcome {
    let alt_s = alt.map(io::path_str);
    let mut args = cmd.args(&io::path_str(input), alt_s.as_deref(), &io::path_str(out));
    let sd = if cmd.stdin { stdin_data } else { None };
    let p = cmd.env_profile;
    let mut vars: Vec<(String, String)> = Vec::new();
    match p & 3 {
        1 => vars.push(("RAYON_NUM_THREADS".into(), "1".into())),
        2 => vars.push(("RAYON_NUM_THREADS".into(), "2".into())),
        3 => vars.push(("RAYON_NUM_THREADS".into(), "7".into())),
        _ => {}
    }
    if p & 8 != 0 {
        vars.push(("LC_ALL".into(), "tr_TR.UTF-8".into()));
        vars.push(("LANG".into(), "tr_TR.UTF-8".into()));
    }
    let cwd = if p & 4 != 0 {
        // every path below the scratch directory is passed relative to it
        input.parent().map(|d| {
            let prefix = format!("{}/", io::path_str(d));
            for a in args.iter_mut() {
                *a = a.replace(&prefix, "");
            }
            d.to_path_buf()
        })
    } else {
        None
    };
    crate::cli::set_run_env(vars, p & 16 != 0 && !py, cwd);
    crate::cli::set_run_cpus(((p >> 5) & 3) as usize);
    let r: CliOut = if py { crate::cli::run_py_entry(&args, sd, 120) } else { run_cli(&args, sd, 120) };
    crate::cli::set_run_env(Vec::new(), false, None);
    crate::cli::set_run_cpus(0);
    let mut o = Outcome {
        code: r.code,
        signal: r.signal,
        panic: if r.panicked() { Some(crate::util::trunc(&r.stderr, 600)) } else { None },
        stderr: r.stderr,
        timed_out: r.timed_out,
        ..Default::default()
    };
    collect(cmd, out, &mut o);
    o
}

/// the library with the documented meaning of each option
pub fn run_via_lib(cmd: &Cmd, input: &Path, alt: Option<&Path>, out: &Path) -> Outcome {
    let (i, o_) = (io::path_str(input), io::path_str(out));
    let r = guarded(|| -> Result<(), String> {
        match cmd.sub {
            Sub::Oligo => {
                let mut c = OligoComputer::new(i.clone(), o_.clone(), cmd.k as usize);
                if cmd.threads > 0 {
                    c.set_threads(cmd.threads);
                }
                c.set_norm(!cmd.counts);
                c.set_header(cmd.header);
                c.set_delim(cmd.preset.delim().to_string());
                c.vectorise()
            }
            Sub::Cgr => {
                let mut c = CgrComputer::new(i.clone(), o_.clone(), cmd.square() as usize);
                if cmd.threads > 0 {
                    c.set_threads(cmd.threads);
                }
                c.vectorise()
            }
            Sub::KCgr => {
                let mut c = OligoCgrComputer::new(i.clone(), o_.clone(), cmd.k as usize, cmd.square() as usize);
                if cmd.threads > 0 {
                    c.set_threads(cmd.threads);
                }
                c.set_norm(!cmd.counts);
                c.vectorise()
            }
            Sub::Cov => {
                std::fs::create_dir_all(out).map_err(|e| e.to_string())?;
                let mut c = CovComputer::new(i.clone(), o_.clone(), cmd.k as usize, cmd.bin_size as usize, cmd.bin_count as usize);
                if cmd.threads > 0 {
                    c.set_threads(cmd.threads);
                }
                if cmd.alt {
                    c.set_kmer_path(alt.map(io::path_str).unwrap_or_else(|| i.clone()));
                }
                c.set_norm(!cmd.counts);
                c.set_max_memory(cmd.lib_mem_gb.unwrap_or(cmd.memory as f64));
                c.set_delim(cmd.preset.delim().to_string());
                c.build_table()?;
                c.compute_coverages();
                Ok(())
            }
            Sub::Min => {
                if cmd.m2s {
                    misc::minimisers::bin_sequences(cmd.w as usize, cmd.m as usize, &i, &o_, cmd.threads);
                } else {
                    misc::minimisers::seq_to_min(cmd.w as usize, cmd.m as usize, &i, &o_, cmd.threads);
                }
                Ok(())
            }
            Sub::Ctr => {
                std::fs::create_dir_all(out).map_err(|e| e.to_string())?;
                let mut c = CountComputer::new(i.clone(), o_.clone(), cmd.k as usize);
                if cmd.threads > 0 {
                    c.set_threads(cmd.threads);
                }
                c.set_acgt_output(cmd.acgt);
                c.set_max_memory(cmd.lib_mem_gb.unwrap_or(cmd.memory as f64));
                c.count();
                c.merge(!cmd.lib_keep_temps);
                Ok(())
            }
        }
    });
    let mut o = Outcome::default();
    match r {
        Err(p) => o.panic = Some(p),
        Ok(Err(e)) => o.lib_err = Some(e),
        Ok(Ok(())) => {}
    }
    collect(cmd, out, &mut o);
    o
}

/// canonical form of a result file for comparison: ordered outputs stay as they are,
/// unordered ones (minimiser listings, counts tables) become sorted lines (m2s lists sorted too)
pub fn canonical(cmd: &Cmd, file: &str, data: &[u8]) -> Vec<u8> {
    let unordered = matches!(cmd.sub, Sub::Min | Sub::Ctr) || file == "kmers.counts";
    if !unordered {
        return data.to_vec();
    }
    let text = String::from_utf8_lossy(data).to_string();
    let mut lines: Vec<String> = text.split_inclusive('\n').map(|s| s.to_string()).collect();
    if cmd.sub == Sub::Min && cmd.m2s {
        lines = lines
            .into_iter()
            .map(|l| match io::parse_m2s_line(l.trim_end_matches('\n')) {
                Ok((t, mut list)) => {
                    list.sort();
                    format!("{}\t{:?}\n", t, list)
                }
                Err(_) => l,
            })
            .collect();
    }
    lines.sort();
    lines.concat().into_bytes()
}

/// compare the result files of two outcomes of (possibly different) commands whose results must agree
pub fn same_results(cmd: &Cmd, a: &Outcome, b: &Outcome) -> Result<(), String> {
    for f in cmd.result_files() {
        match (a.files.get(f), b.files.get(f)) {
            (Some(x), Some(y)) => {
                let (cx, cy) = (canonical(cmd, f, x), canonical(cmd, f, y));
                if cx != cy {
                    let p = cx.iter().zip(cy.iter()).position(|(p, q)| p != q).unwrap_or(cx.len().min(cy.len()));
                    let ctx = |d: &[u8]| String::from_utf8_lossy(&d[p.saturating_sub(30)..(p + 30).min(d.len())]).to_string();
                    return Err(format!(
                        "result file {:?} differs: {} vs {} bytes, first difference at byte {} ({:?} vs {:?})",
                        if f.is_empty() { "<output>" } else { f },
                        cx.len(),
                        cy.len(),
                        p,
                        ctx(&cx),
                        ctx(&cy)
                    ));
                }
            }
            (None, None) => {}
            (x, y) => return Err(format!("result file {:?} exists in one run only ({} vs {})", f, x.is_some(), y.is_some())),
        }
    }
    Ok(())
}
