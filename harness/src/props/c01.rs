//! C01 — k-mer iterator yields exactly the valid windows, in order, 2-bit encoded.
use crate::engine::{Ctx, Leg, Tier, Verdict};
use crate::util::Bytes;
use crate::{gen, model};
use kmer::kmer::KmerGenerator;
use proptest::prelude::*;
use serde::{Deserialize, Serialize};

#[derive(Clone, Debug, Serialize, Deserialize)]
pub struct Case {
    pub seq: Bytes,
    pub k: usize,
    /// the sequence is repeated until it has at least this many bytes (0 = as it is):
    /// clean runs and positions beyond 2^16
    #[serde(default)]
    pub min_len: usize,
}

pub fn stretched(seq: &[u8], min_len: usize) -> Vec<u8> {
    let mut out = seq.to_vec();
    if !seq.is_empty() {
        while out.len() < min_len {
            out.extend_from_slice(seq);
        }
    }
    out
}

pub fn min_len_strategy() -> BoxedStrategy<usize> {
    prop_oneof![300 => Just(0usize), 2 => Just(5_000usize), 1 => Just(70_000usize), 1 => Just(140_000usize)].boxed()
}

pub struct Iter;

pub fn check_case(seq: &[u8], k: usize) -> Verdict {
    let mut v = Verdict::new();
    let got: Vec<(u64, u64)> = KmerGenerator::new(seq, k).collect();
    let want = model::windows(seq, k);
    let has_foreign = seq.iter().any(|&b| !model::is_base(b));
    let lower = seq.iter().any(|b| b"acgtu".contains(b));
    let has_u = seq.iter().any(|b| b"Uu".contains(b));
    v.class_if(k >= 16, "k>=16");
    v.class_if(k == 31, "k=31");
    v.class_if(has_foreign, "has-foreign");
    v.class_if(seq.len() < k, "len<k");
    v.class_if(seq.is_empty(), "empty");
    v.class_if(lower, "lower");
    v.class_if(has_u, "U");
    // resync: a foreign byte followed somewhere by a window
    if has_foreign {
        let first_foreign = seq.iter().position(|&b| !model::is_base(b)).unwrap();
        v.class_if(want.iter().any(|w| w.0 > first_foreign), "resync");
    }
    v.nontrivial = !want.is_empty() && (has_foreign || k >= 16 || lower || has_u);
    // the same bytes at every address alignment (word-wise and SIMD fast paths split off an unaligned head)
    if seq.len() <= 4096 {
        for t in 0..16 {
            let a = crate::util::Aligned::new(seq, t);
            let g: Vec<(u64, u64)> = KmerGenerator::new(a.get(), k).collect();
            if g != got {
                let p = g.iter().zip(got.iter()).position(|(x, y)| x != y).unwrap_or(g.len().min(got.len()));
                v.fail("depends-on-address-alignment", format!("with the first byte at an address = {} mod 16 the iterator yields {} items, otherwise {}; first difference at item {} (k={})", t, g.len(), got.len(), p, k));
                return v;
            }
        }
    }
    if got.len() != want.len() {
        v.fail(
            "count-mismatch",
            format!("iterator yielded {} items, model has {} valid windows (k={})", got.len(), want.len(), k),
        );
        return v;
    }
    for (i, ((f, r), (p, mf, mr))) in got.iter().zip(want.iter()).enumerate() {
        if *f >= model::pow4(k) {
            v.fail("code-out-of-range", format!("item {} forward code {} >= 4^{}", i, f, k));
            return v;
        }
        if f != mf {
            v.fail("forward-code", format!("item {} (window at {}): forward {} != model {}", i, p, f, mf));
            return v;
        }
        if r != mr {
            v.fail("reverse-code", format!("item {} (window at {}): reverse {} != model {}", i, p, r, mr));
            return v;
        }
    }
    v
}

impl Leg for Iter {
    type Case = Case;
    const NAME: &'static str = "iter-vs-model";
    fn strategy(tier: Tier) -> BoxedStrategy<Case> {
        let max = tier.pick(300, 3000);
        gen::k_strategy()
            .prop_flat_map(move |k| (gen::seq(k, max, false), Just(k), min_len_strategy()))
            .prop_map(|(seq, k, min_len)| Case { seq: Bytes(seq), k, min_len })
            .boxed()
    }
    fn check(c: &Case) -> Verdict {
        let seq = stretched(&c.seq, c.min_len);
        let mut v = check_case(&seq, c.k);
        v.class_if(seq.len() > 65536, "len>65536");
        v
    }
}

/// 128 code points worth meeting: low byte equal to a nucleotide letter (truncating casts), case mappings
/// and compatibility / canonical decompositions that contain a nucleotide letter, look-alikes from other
/// scripts, white space and zero-width characters, the ends of the UTF-8 length classes
pub const UTF8_TABLE: [u32; 128] = [
    0x141, 0x143, 0x147, 0x154, 0x155, 0x161, 0x163, 0x167, 0x174, 0x175, 0x4E41, 0x4E43, 0x4E47, 0x4E54, 0x4E55, 0x4E61, 0x4E63, 0x4E67, 0x4E74, 0x4E75, 0x1F441, 0x1F443, 0x1F447, 0x1F454, 0x100, 0x101, 0x102, 0x103, 0x200, 0x201, 0x202, 0x203, 0x1E97, 0x1E9A, 0xFB05, 0xFB06, 0x130, 0x212A, 0x212B, 0x149, 0x1F0, 0x1E96, 0x1E98, 0x1E99, 0xDF, 0xFB00, 0xFB01, 0xFF21, 0xFF23, 0xFF27, 0xFF34, 0xFF35, 0xFF41, 0xFF43, 0xFF47, 0xFF54, 0xFF55, 0x1D400, 0x1D402, 0x1D406, 0x1D413, 0x1D41A, 0x1D41C, 0x24B6, 0x24B8, 0x24BC, 0x24C9, 0x1D2C, 0x1D33, 0x1D40, 0xAA, 0xC0, 0xC1, 0xC2, 0xC3, 0xC4, 0xC5, 0xC7, 0xE0, 0xE1, 0xE7, 0xE9, 0xFA, 0xFC, 0x106, 0x107, 0x11E, 0x11F, 0x162, 0x163, 0x168, 0x169, 0x301, 0x308, 0x327, 0x391, 0x3A4, 0x3B1, 0x410, 0x421, 0x422, 0x430, 0x441, 0x443, 0xA0, 0x3000, 0x2028, 0x2029, 0x200B, 0x200D, 0xFEFF, 0xFFFD, 0x85, 0x1680, 0x2003, 0x80, 0xFF, 0x7FF, 0x800, 0xFFFF, 0x10000, 0x10FFFF, 0xD7FF, 0xE000, 0x100, 0x125, 0x14A, 0x16F,
];

/// bytes -> a valid UTF-8 string for the Python legs: ASCII kept (0..3 become 'N'), a byte >= 0x80
/// becomes the character UTF8_TABLE[b - 0x80] (all of whose UTF-8 bytes are >= 0x80, i.e. ambiguous)
pub fn utf8_safe(seq: &[u8]) -> Vec<u8> {
    let mut out = Vec::with_capacity(seq.len());
    for &b in seq {
        if b < 4 {
            out.push(b'N');
        } else if b < 0x80 {
            out.push(b);
        } else {
            let c = char::from_u32(UTF8_TABLE[(b - 0x80) as usize]).unwrap();
            let mut buf = [0u8; 4];
            out.extend_from_slice(c.encode_utf8(&mut buf).as_bytes());
        }
    }
    out
}

pub fn parse_tuples_u64(r: &serde_json::Value, arity: usize) -> Result<Vec<Vec<u64>>, String> {
    let a = r["ok"].as_array().ok_or_else(|| format!("python answered {}", crate::util::trunc(&r.to_string(), 200)))?;
    a.iter()
        .map(|t| {
            let t = t.as_array().ok_or("not a tuple")?;
            if t.len() != arity {
                return Err(format!("tuple of {} components", t.len()));
            }
            t.iter().map(|x| x.as_u64().ok_or_else(|| "not an unsigned integer".to_string())).collect()
        })
        .collect()
}

/// the Python iterator (pykmertools.KmerGenerator) against the model
pub struct Python;
impl Leg for Python {
    type Case = Case;
    const NAME: &'static str = "python";
    fn strategy(tier: Tier) -> BoxedStrategy<Case> {
        Iter::strategy(tier)
    }
    fn check(c: &Case) -> Verdict {
        let mut v = Verdict::new();
        let seq = utf8_safe(&stretched(&c.seq, c.min_len.min(70_000)));
        let want = model::windows(&seq, c.k);
        v.class("python");
        v.class_if(seq.iter().any(|&b| b >= 0x80), "non-ascii");
        v.nontrivial = !want.is_empty() && (c.k >= 16 || seq.iter().any(|&b| !model::is_base(b)));
        match crate::pyworker::ask(&serde_json::json!({"op": "kmers", "k": c.k, "seq": crate::pyworker::hex(&seq)})).and_then(|r| parse_tuples_u64(&r, 2)) {
            Err(e) => crate::pyworker::record_error(&mut v, e),
            Ok(got) => {
                let w: Vec<Vec<u64>> = want.iter().map(|x| vec![x.1, x.2]).collect();
                if got != w {
                    let pos = got.iter().zip(w.iter()).position(|(a, b)| a != b);
                    v.fail("python-iterator-differs", format!("pykmertools.KmerGenerator yields {} items, model {}; first difference at {:?} (k={})", got.len(), w.len(), pos, c.k));
                }
            }
        }
        v
    }
}

/// giant sequences (66 000 bases to millions; periodic, homopolymer, pseudo-random, with a few foreign
/// bytes): positions and clean runs beyond 2^16 / 2^20 / 2^24, through the core iterator (item by item
/// against the model's streaming enumeration) and through pykmertools.KmerGenerator (count + digest)
#[derive(Clone, Debug, Serialize, Deserialize)]
pub struct GiantCase {
    pub giant: gen::Giant,
    pub k: usize,
    pub python: bool,
}

pub struct Giants;
impl Leg for Giants {
    type Case = GiantCase;
    const NAME: &'static str = "giant-sequences";
    fn strategy(tier: Tier) -> BoxedStrategy<GiantCase> {
        let hi = tier.pick(2_300_000, 17_500_000);
        let edits: Vec<u8> = b"ACGTacgtuUNNNn-*RY\x04\x7f\x80\xc1\xff".to_vec();
        (gen::k_strategy(), prop_oneof![2 => gen::giant(66_000, hi, edits.clone()), 1 => gen::giant_random(66_000, hi, edits.clone())], prop::bool::weighted(0.3))
            .prop_map(|(k, giant, python)| {
                // the Python leg gets ASCII edits only (its string must be valid UTF-8) and unit-based giants
                let python = python && giant.rand_seed.is_none() && giant.edits.iter().all(|e| e.1 < 0x80);
                GiantCase { giant, k, python }
            })
            .boxed()
    }
    fn check(c: &GiantCase) -> Verdict {
        let mut v = Verdict::new();
        let seq = c.giant.expand();
        v.class(c.giant.label());
        v.class(if c.python { "giant-python" } else { "giant-library" });
        v.class_if(c.k >= 16, "k>=16");
        if c.python {
            let (mut n, mut h) = (0u64, 0u64);
            model::for_each_window(&seq, c.k, |_, f, r| {
                h = h.wrapping_mul(1000003).wrapping_add(f.wrapping_mul(31)).wrapping_add(r);
                n += 1;
            });
            v.nontrivial = n > 0;
            match crate::pyworker::ask(&serde_json::json!({"op": "kmers_digest", "k": c.k, "giant": c.giant.to_json()})) {
                Err(e) => crate::pyworker::record_error(&mut v, e),
                Ok(r) => {
                    let got = r["ok"].as_array().map(|a| (a.first().and_then(|x| x.as_u64()), a.get(1).and_then(|x| x.as_u64())));
                    if got != Some((Some(n), Some(h))) {
                        v.fail("python-giant-iterator-differs", format!("pykmertools.KmerGenerator on {} bases, k={}: (count, digest) = {} but the model has ({}, {})", seq.len(), c.k, crate::util::trunc(&r.to_string(), 120), n, h));
                    }
                }
            }
            return v;
        }
        let mut it = KmerGenerator::new(&seq, c.k);
        let mut i = 0u64;
        let mut bad: Option<String> = None;
        model::for_each_window(&seq, c.k, |p, f, r| {
            if bad.is_some() {
                return;
            }
            match it.next() {
                Some((gf, gr)) if gf == f && gr == r => {}
                other => bad = Some(format!("item {} (window at {}): iterator gives {:?}, model ({}, {})", i, p, other, f, r)),
            }
            i += 1;
        });
        v.nontrivial = i > 0;
        if let Some(m) = bad {
            v.fail("giant-item-differs", format!("{} bases, k={}: {}", seq.len(), c.k, m));
        } else if let Some(extra) = it.next() {
            v.fail("giant-extra-item", format!("{} bases, k={}: the iterator yields {:?} after the model's {} windows", seq.len(), c.k, extra, i));
        }
        v
    }
}

/// strings that live only for the constructor call, one after the other, all of the same length and different
/// content (a loop over decoded records): caches keyed by the address or length of the Python string
#[derive(Clone, Debug, Serialize, Deserialize)]
pub struct TempCase {
    pub seqs: Vec<Bytes>,
    pub k: usize,
    pub w: usize,
    pub m: usize,
}

pub fn temp_strategy() -> BoxedStrategy<TempCase> {
    (gen::k_strategy(), gen::wm_strategy(31, 60), prop_oneof![2 => 20usize..=300, 3 => 512usize..=1400], 3usize..=8)
        .prop_flat_map(|(k, (w, m), len, n)| {
            (proptest::collection::vec(proptest::collection::vec(prop::sample::select(b"ACGTACGTACGTN".to_vec()), len), n), Just(k), Just(w), Just(m))
        })
        .prop_map(|(seqs, k, w, m)| TempCase { seqs: seqs.into_iter().map(Bytes).collect(), k, w, m })
        .boxed()
}

/// which = 0: the k-mer iterator is judged, 1: the minimiser iterator
pub fn check_temporaries(c: &TempCase, which: usize) -> Verdict {
    let mut v = Verdict::new();
    v.class("python-temporaries");
    v.class_if(c.seqs.first().map(|s| s.0.len() >= 512).unwrap_or(false), "temporaries>=512-chars");
    v.nontrivial = c.seqs.len() >= 2;
    let hexes: Vec<String> = c.seqs.iter().map(|s| crate::pyworker::hex(&s.0)).collect();
    match crate::pyworker::ask(&serde_json::json!({"op": "temporaries", "k": c.k, "w": c.w, "m": c.m, "seqs": hexes})) {
        Err(e) => crate::pyworker::record_error(&mut v, e),
        Ok(r) => {
            for (i, s) in c.seqs.iter().enumerate() {
                let got: Vec<Vec<u64>> = r["ok"][i][which].as_array().map(|a| a.iter().map(|t| t.as_array().map(|x| x.iter().map(|y| y.as_u64().unwrap_or(u64::MAX)).collect()).unwrap_or_default()).collect()).unwrap_or_default();
                let want: Vec<Vec<u64>> = if which == 0 {
                    model::windows(&s.0, c.k).iter().map(|x| vec![x.1, x.2]).collect()
                } else {
                    model::minimiser_runs(&s.0, c.w, c.m).iter().map(|x| vec![x.0, x.1 as u64, x.2 as u64]).collect()
                };
                let recount = r["ok"][i][2 + which].as_u64();
                if recount != Some(want.len() as u64) {
                    v.fail("python-temporaries-differ", format!("string {} of {} equal-length temporaries ({} characters): the {} iterator yields {:?} items when only counted, the model has {}", i, c.seqs.len(), s.0.len(), ["k-mer", "minimiser"][which], recount, want.len()));
                    return v;
                }
                if got != want {
                    let p = got.iter().zip(want.iter()).position(|(a, b)| a != b).unwrap_or(got.len().min(want.len()));
                    v.fail("python-temporaries-differ", format!("string {} of {} equal-length temporaries ({} characters): the {} iterator yields {} items, the model {}; first difference at {}", i, c.seqs.len(), s.0.len(), ["k-mer", "minimiser"][which], got.len(), want.len(), p));
                    return v;
                }
            }
        }
    }
    v
}

pub struct Temporaries;
impl Leg for Temporaries {
    type Case = TempCase;
    const NAME: &'static str = "python-equal-length-temporaries";
    fn strategy(_tier: Tier) -> BoxedStrategy<TempCase> {
        temp_strategy()
    }
    fn check(c: &TempCase) -> Verdict {
        check_temporaries(c, 0)
    }
}

/// first calls of a fresh process made by several threads at once
pub struct Cold;
impl Leg for Cold {
    type Case = super::coldstart::Case;
    const NAME: &'static str = "cold-start-threads";
    fn strategy(_tier: Tier) -> BoxedStrategy<Self::Case> {
        use super::coldstart::Op;
        let op = gen::k_strategy().prop_flat_map(|k| super::coldstart::small_seq(k).prop_map(move |seq| Op::KmerIter { seq, k })).boxed();
        super::coldstart::case_strategy(op)
    }
    fn check(c: &Self::Case) -> Verdict {
        super::coldstart::check(c, "cold-start-wrong-result")
    }
}

/// histories on one thread: k-mer iterators alive together, advanced in a generated interleaving, dropped early, rebuilt
pub struct Sessions;
impl Leg for Sessions {
    type Case = super::sessions::Session;
    const NAME: &'static str = "call-histories";
    fn strategy(_tier: Tier) -> BoxedStrategy<Self::Case> {
        super::sessions::strategy(&[0])
    }
    fn check(c: &Self::Case) -> Verdict {
        super::sessions::check(c)
    }
}

/// one Python iterator object driven by a script (next / for-with-break / list / iter, calls after the end)
pub struct PySessions;
impl Leg for PySessions {
    type Case = super::pysessions::PySession;
    const NAME: &'static str = "python-call-histories";
    fn strategy(_tier: Tier) -> BoxedStrategy<Self::Case> {
        super::pysessions::strategy(false)
    }
    fn check(c: &Self::Case) -> Verdict {
        super::pysessions::check(c)
    }
}

pub fn run(ctx: &mut Ctx) {
    let ns = ctx.share(ctx.tier.pick(8_000, 160_000));
    ctx.run_leg::<Sessions>(ns, false, 400);

    let ng = ctx.share(ctx.tier.pick(96, 2_400));
    ctx.run_leg::<Giants>(ng, false, 12);
    let nc = ctx.share(ctx.tier.pick(2_400, 40_000));
    ctx.run_leg::<Cold>(nc, false, 40);
    super::coldstart::infra_inconclusive(ctx);

    let nt = ctx.share(ctx.tier.pick(1_600, 40_000));
    ctx.run_leg::<Temporaries>(nt, false, 200);
    let np = ctx.share(ctx.tier.pick(6_000, 120_000));
    ctx.run_leg::<PySessions>(np, false, 300);
    let n = ctx.share(ctx.tier.pick(30_000, 400_000));
    ctx.run_leg::<Python>(n, false, 1000);
    let n = ctx.share(ctx.tier.pick(200_000, 4_000_000));
    ctx.run_leg::<Iter>(n, false, 4000);
    crate::pyworker::infra_inconclusive(ctx);
}

pub fn replay(leg: &str, case: &serde_json::Value) -> Option<Result<Verdict, String>> {
    match leg {
        "iter-vs-model" => Some(crate::engine::replay_leg::<Iter>(case)),
        "python" => Some(crate::engine::replay_leg::<Python>(case)),
        "cold-start-threads" => Some(crate::engine::replay_leg::<Cold>(case)),
        "giant-sequences" => Some(crate::engine::replay_leg::<Giants>(case)),
        "python-call-histories" => Some(crate::engine::replay_leg::<PySessions>(case)),
        "python-equal-length-temporaries" => Some(crate::engine::replay_leg::<Temporaries>(case)),
        "call-histories" => Some(crate::engine::replay_leg::<Sessions>(case)),
        _ => None,
    }
}
