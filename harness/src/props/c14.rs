//! C14 — unchecked indexing and memory-mapped writes always stay inside their buffers.
use super::oligo_exec::{self, OligoCfg, Writer};
use crate::engine::{Ctx, Leg, Tier, Verdict};
use crate::gen::{self, Container, Rec, RecParams, Sched};
use crate::io;
use crate::model;
use proptest::prelude::*;
use serde::{Deserialize, Serialize};

#[derive(Clone, Debug, Serialize, Deserialize)]
pub struct MmapCase {
    pub recs: Vec<Rec>,
    pub k: usize,
    pub delim: String,
    pub header: bool,
    pub threads: usize,
    pub sched: Sched,
    /// a giant record (and where it goes among the others): frequencies next to 0 and 1, counts beyond 2^16
    #[serde(default)]
    pub giant: Option<(gen::Giant, u16)>,
    /// container of the input file (the mapping is sized by a pre-pass over the file)
    #[serde(default)]
    pub cont: Option<Container>,
    /// the same computer object first runs on these records (written to the same input path), then on `recs`
    #[serde(default)]
    pub first: Option<Vec<Rec>>,
}

pub fn check_mmap(c: &MmapCase) -> Verdict {
    let mut v = Verdict::new();
    let mut recs_all = c.recs.clone();
    if let Some((g, at)) = &c.giant {
        let at = crate::util::idx16(*at, recs_all.len() + 1);
        recs_all.insert(at, Rec { id: "giant".into(), desc: None, seq: crate::util::Bytes(g.expand()) });
        v.class(g.label());
        v.class("mmap-giant");
    }
    let c = &MmapCase { recs: recs_all, giant: None, ..c.clone() };
    let cont = c.cont.clone().unwrap_or_else(Container::plain_fasta);
    v.class(cont.label());
    let n = c.recs.len();
    v.nontrivial = n >= 2 && (c.delim.len() != 1 || c.header || c.threads >= 2);
    v.class(format!("delim-len-{}", c.delim.len()));
    v.class_if(c.header, "header");
    v.class(match &c.sched { Sched::Free => "sched-free", Sched::Perturb(_) => "sched-perturb", Sched::Controlled(_) => "sched-controlled" });
    v.class(format!("k={}", c.k));
    let dir = crate::scratch_dir();
    let input = io::write_input(dir.path(), "in", &c.recs, &cont);
    let out = dir.path().join("out.txt");
    if let Some(f) = &c.first {
        // FASTQ cannot hold records without bases: the earlier contents keep those that have some
        let f: Vec<Rec> = if cont.is_fastq() { f.iter().filter(|r| !r.seq.0.is_empty()).cloned().collect() } else { f.clone() };
        oligo_exec::FIRST_INPUT.with(|x| *x.borrow_mut() = Some(io::serialise(&f, &cont)));
        v.class("same-object-second-run-on-a-rewritten-input");
        v.class_if(f.len() != c.recs.len(), "record-count-changed-between-the-runs");
    }
    let cfg = OligoCfg { k: c.k, threads: c.threads, memory: 4usize << 30, writer: Writer::Mmap, norm: true, header: c.header, delim: c.delim.clone() };
    let r = oligo_exec::exec(&io::path_str(&input), &io::path_str(&out), &cfg, &c.sched);
    if let Some((pos, len, cap)) = r.oob_write {
        v.fail(
            "write-outside-mapping",
            format!("write_at(pos {}, {} bytes) reaches past the mapped file of {} bytes (n={}, k={}, delimiter {:?}, header {})", pos, len, cap, n, c.k, c.delim, c.header),
        );
        return v;
    }
    match &r.result {
        Err(p) => {
            v.fail(crate::engine::panic_sig(p), format!("mmap writer panicked: {}", p));
            return v;
        }
        Ok(Err(e)) => {
            v.fail("vectorise-error", format!("vectorise returned Err({})", e));
            return v;
        }
        Ok(Ok(())) => {}
    }
    let kcount = model::closed_form_count(c.k) as usize;
    let row_len = kcount * 8 + (kcount - 1) * c.delim.len() + 1;
    let header_len = if c.header { kcount * c.k + (kcount - 1) * c.delim.len() + 1 } else { 0 };
    let expect = header_len + n * row_len;
    let data = r.output.clone().unwrap_or_default();
    let caps: std::collections::BTreeSet<usize> = r.writes.iter().map(|w| w.2).collect();
    if data.len() != expect || caps.iter().any(|&cap| cap != expect) {
        v.fail(
            "file-size",
            format!("file has {} bytes, mapping capacities {:?}, but header {} + {} records x row {} = {} (delimiter {:?})", data.len(), caps, header_len, n, row_len, expect, c.delim),
        );
        return v;
    }
    // intervals: disjoint and tiling [0, cap)
    let mut iv: Vec<(usize, usize)> = r.writes.iter().filter(|w| w.1 > 0).map(|w| (w.0, w.0 + w.1)).collect();
    iv.sort();
    let mut end = 0usize;
    for (s, e) in &iv {
        if *s < end {
            v.fail("writes-overlap", format!("write [{}, {}) overlaps a previous write ending at {}", s, e, end));
            return v;
        }
        if *s > end {
            v.fail("bytes-unwritten", format!("bytes [{}, {}) are never written", end, s));
            return v;
        }
        end = *e;
    }
    if end != expect {
        v.fail("bytes-unwritten", format!("writes cover [0, {}) of a file of {} bytes", end, expect));
        return v;
    }
    if let Some(p) = data.iter().position(|&b| b == 0) {
        v.fail("nul-byte", format!("output contains a NUL byte at offset {}", p));
    }
    v
}

pub fn delim_strategy() -> BoxedStrategy<String> {
    prop_oneof![
        2 => Just(String::new()),
        4 => "[ ,;|\t]",
        3 => "[ ,;|\t:]{2}",
        1 => "[ ,;|\t:]{3}",
        2 => "[ ,;|\t:]{4}",
    ]
    .boxed()
}

pub struct Mmap;
impl Leg for Mmap {
    type Case = MmapCase;
    const NAME: &'static str = "mmap-writes";
    fn strategy(tier: Tier) -> BoxedStrategy<MmapCase> {
        let max_records = tier.pick(30, 200);
        (prop_oneof![10 => 1usize..=6, 1 => 7usize..=8], delim_strategy(), any::<bool>(), gen::threads_strategy())
            .prop_flat_map(move |(k, delim, header, threads)| {
                let p = RecParams { max_records: if k >= 7 { 3 } else { max_records }, scale: k, max_len: 40, degenerate_w: 2, bounds: [k, 0, 0], nuc_only: false };
                (gen::records_in_container(p), gen::sched_strategy(true, 2 * max_records), prop_oneof![4 => Just(None), 1 => gen::records(p).prop_map(Some)]).prop_map(move |((recs, cont), sched, first)| {
                    let threads = if matches!(sched, Sched::Controlled(_)) { ((threads - 1) % 6) + 1 } else { threads };
                    // the earlier run goes free-running (the controlled scheduler is installed once per execution)
                    let first = if matches!(sched, Sched::Controlled(_)) { None } else { first };
                    MmapCase { recs, k, delim: delim.clone(), header, threads, sched, giant: None, cont: Some(cont), first }
                })
            })
            .boxed()
    }
    fn check(c: &MmapCase) -> Verdict {
        check_mmap(c)
    }
}

/// the same writer with one giant record among a few small ones
pub struct MmapGiant;
impl Leg for MmapGiant {
    type Case = MmapCase;
    const NAME: &'static str = "mmap-giant";
    fn strategy(tier: Tier) -> BoxedStrategy<MmapCase> {
        let hi = tier.pick(3_400_000, 17_500_000);
        (prop_oneof![3 => Just(1usize), 2 => 2usize..=4, 1 => 5usize..=7], delim_strategy(), any::<bool>(), gen::threads_strategy(), any::<u16>())
            .prop_flat_map(move |(k, delim, header, threads, at)| {
                let p = RecParams { max_records: 4, scale: k, max_len: 40, degenerate_w: 2, bounds: [k, 0, 0], nuc_only: false };
                (gen::records(p), prop_oneof![1 => gen::giant(60_000, hi, b"ACGTN".to_vec()), 1 => gen::giant_near_one(hi.min(3_400_000))])
                    .prop_map(move |(recs, g)| MmapCase { recs, k, delim: delim.clone(), header, threads, sched: Sched::Free, giant: Some((g, at)), cont: None, first: None })
            })
            .boxed()
    }
    fn check(c: &MmapCase) -> Verdict {
        check_mmap(c)
    }
}

// ---------------------------------------------------------------------------------------------
// unchecked indexing in coverage histograms, counting partitions and k-mer vectors.
// These legs only *execute* the kernels in the journaled child process: the shard is built with
// debug assertions, so an index outside its buffer aborts the process ("unsafe precondition(s)
// violated") and the runner reports the journaled case as the violation. Wrong results are the
// business of C04/C07/C08/C12.

#[derive(Clone, Debug, Serialize, Deserialize)]
pub struct CovCase {
    pub unit: Vec<Rec>,
    /// every record of `unit` is written this many times into the counting input
    pub copies: usize,
    pub k: usize,
    pub bin_size: usize,
    pub bin_count: usize,
    pub norm: bool,
    pub threads: usize,
    /// counting input unrelated to the input (other k-mers, fewer, or none at all) instead of the copies
    #[serde(default)]
    pub alt: Option<Vec<Rec>>,
    /// one more record, a homopolymer with exactly this many windows: a k-mer of that multiplicity
    /// (round numbers where lookup tables and narrow counters end: 255, 256, 1000, 1024, 65535, 65536, +-1)
    #[serde(default)]
    pub poly: Option<usize>,
}

pub fn check_cov(c: &CovCase) -> Verdict {
    let mut v = Verdict::new();
    let dir = crate::scratch_dir();
    let mut all: Vec<Rec> = Vec::new();
    for i in 0..c.copies {
        for r in &c.unit {
            all.push(Rec { id: format!("{}_{}", r.id, i), desc: None, seq: r.seq.clone() });
        }
    }
    let input = io::write_input(dir.path(), "in", &c.unit, &Container::plain_fasta());
    let mut unit = c.unit.clone();
    if let Some(mult) = c.poly {
        let r = Rec { id: "poly".into(), desc: None, seq: crate::util::Bytes(vec![b'A'; mult + c.k - 1]) };
        all.push(r.clone());
        unit.push(r);
        v.class(format!("multiplicity-{}", mult));
    }
    let c = &CovCase { unit, poly: None, ..c.clone() };
    if let Some(a) = &c.alt {
        all = a.clone();
        v.class("cov-unrelated-counting-input");
        v.class_if(a.iter().all(|r| model::windows(&r.seq, c.k).is_empty()), "cov-counting-input-without-kmers");
    }
    let alt = io::write_input(dir.path(), "alt", &all, &Container::plain_fasta());
    let outdir = dir.path().join("out");
    std::fs::create_dir_all(&outdir).unwrap();
    let edge = c.bin_size * c.bin_count;
    v.class(if c.copies == edge { "multiplicity=size*count" } else if c.copies > edge { "multiplicity>last-bin" } else { "multiplicity<last-bin" });
    v.class_if(c.bin_count == 1, "bins=1");
    v.class("cov");
    v.nontrivial = c.copies + 1 >= edge && c.unit.iter().any(|r| r.seq.0.len() >= c.k);
    let o = super::c08::exec(&io::path_str(&input), Some(&io::path_str(&alt)), &outdir, c.k, c.bin_size, c.bin_count, c.norm, c.threads, 6.0, " ");
    // a (checked) panic is not an unchecked access; it is left to C08/C16
    v.class_if(o.result.is_err(), "checked-panic-ignored");
    v
}

pub struct Cov;
impl Leg for Cov {
    type Case = CovCase;
    const NAME: &'static str = "cov-bins";
    fn strategy(_tier: Tier) -> BoxedStrategy<CovCase> {
        (1usize..=6, 1usize..=6, prop_oneof![3 => 1usize..=10, 1 => gen::k_strategy()], any::<bool>(), gen::threads_strategy(), 0usize..8)
            .prop_flat_map(|(bin_size, bin_count, k, norm, threads, how)| {
                let edge = bin_size * bin_count;
                // multiplicities around the boundary of the last bin, and far beyond it
                let copies = match how {
                    0 => 1,
                    1 => edge.saturating_sub(1).max(1),
                    2 | 3 => edge,
                    4 => edge + 1,
                    5 => 2 * edge,
                    6 => 7 * edge + 3,
                    _ => (edge / 2).max(1),
                };
                let p = RecParams { max_records: 3, scale: k, max_len: 60, degenerate_w: 1, bounds: [k, 0, 0], nuc_only: false };
                let pa = RecParams { max_records: 3, scale: k, max_len: 40, degenerate_w: 3, bounds: [k, 0, 0], nuc_only: false };
                let poly = prop_oneof![3 => Just(None), 1 => (prop::sample::select(vec![255usize, 256, 1000, 1024, 4096, 65535, 65536]), -1i64..=1).prop_map(|(m, d)| Some((m as i64 + d) as usize))];
                (gen::records(p), prop_oneof![2 => Just(None), 1 => gen::records(pa).prop_map(Some)], poly).prop_map(move |(unit, alt, poly)| CovCase { unit, copies, k, bin_size, bin_count, norm, threads, alt: if poly.is_some() { None } else { alt }, poly })
            })
            .boxed()
    }
    fn check(c: &CovCase) -> Verdict {
        check_cov(c)
    }
}

#[derive(Clone, Debug, Serialize, Deserialize)]
pub struct CtrCase {
    pub recs: Vec<Rec>,
    pub k: usize,
    pub threads: usize,
    /// bases per chunk (small values give many chunks and many more partitions than distinct k-mers)
    pub limit: u64,
}

pub fn check_ctr(c: &CtrCase) -> Verdict {
    let mut v = Verdict::new();
    let dir = crate::scratch_dir();
    let input = io::write_input(dir.path(), "in", &c.recs, &Container::plain_fasta());
    let outdir = dir.path().join("out");
    std::fs::create_dir_all(&outdir).unwrap();
    let cfg = super::c07::CtrCfg { k: c.k, threads: c.threads, mem_gb: super::c07::mem_for_limit(c.limit), acgt: false };
    let o = super::c07::exec(&io::path_str(&input), &outdir, &cfg, &Sched::Free);
    v.class("ctr");
    v.class(match o.parts { 0 | 1 => "parts<=1", 2..=9 => "parts=2-9", 10..=49 => "parts=10-49", _ => "parts>=50" });
    v.nontrivial = o.parts >= 2 && !c.recs.is_empty();
    v.class_if(o.result.is_err(), "checked-panic-ignored");
    v
}

pub struct Ctr;
impl Leg for Ctr {
    type Case = CtrCase;
    const NAME: &'static str = "ctr-partitions";
    fn strategy(_tier: Tier) -> BoxedStrategy<CtrCase> {
        (gen::k_strategy(), gen::threads_strategy(), prop_oneof![1 => Just(1u64 << 40), 3 => 20u64..400, 1 => 5u64..20])
            .prop_flat_map(|(k, threads, limit)| {
                let p = RecParams { max_records: 12, scale: k, max_len: 80, degenerate_w: 1, bounds: [k, 0, 0], nuc_only: false };
                gen::records(p).prop_map(move |recs| {
                    // keep partitions x chunks (temp files) in the low hundreds
                    let total: u64 = recs.iter().map(|r| r.seq.0.len() as u64).sum();
                    let limit = limit.max(total / 40).max(1);
                    CtrCase { recs, k, threads, limit }
                })
            })
            .boxed()
    }
    fn check(c: &CtrCase) -> Verdict {
        check_ctr(c)
    }
}

#[derive(Clone, Debug, Serialize, Deserialize)]
pub struct KcgrCase {
    pub recs: Vec<Rec>,
    pub k: usize,
    pub norm: bool,
    pub threads: usize,
}

pub fn check_kcgr(c: &KcgrCase) -> Verdict {
    let mut v = Verdict::new();
    let dir = crate::scratch_dir();
    let input = io::write_input(dir.path(), "in", &c.recs, &Container::plain_fasta());
    let out = dir.path().join("out.kcgr");
    v.class("kcgr");
    v.nontrivial = c.recs.iter().any(|r| r.seq.0.len() >= c.k);
    let r = crate::engine::guarded(|| {
        let mut cc = composition::oligocgr::OligoCgrComputer::new(io::path_str(&input), io::path_str(&out), c.k, 16);
        cc.set_threads(c.threads);
        cc.set_norm(c.norm);
        cc.vectorise()
    });
    v.class_if(r.is_err(), "checked-panic-ignored");
    v
}

pub struct Kcgr;
impl Leg for Kcgr {
    type Case = KcgrCase;
    const NAME: &'static str = "kcgr-vectors";
    fn strategy(_tier: Tier) -> BoxedStrategy<KcgrCase> {
        (1usize..=7, any::<bool>(), gen::threads_strategy())
            .prop_flat_map(|(k, norm, threads)| {
                let p = RecParams { max_records: if k >= 6 { 3 } else { 10 }, scale: k, max_len: 120, degenerate_w: 1, bounds: [k, 0, 0], nuc_only: false };
                gen::records(p).prop_map(move |recs| KcgrCase { recs, k, norm, threads })
            })
            .boxed()
    }
    fn check(c: &KcgrCase) -> Verdict {
        check_kcgr(c)
    }
}

/// the per-sequence oligo routine (also the landing place of `oligo_vec` fuzz artifacts)
pub struct OligoOne;
impl Leg for OligoOne {
    type Case = super::c04::OneCase;
    const NAME: &'static str = "oligo-one";
    fn strategy(tier: Tier) -> BoxedStrategy<super::c04::OneCase> {
        <super::c04::One as Leg>::strategy(tier)
    }
    fn check(c: &super::c04::OneCase) -> Verdict {
        let mut v = super::c04::check_one(c);
        // only the execution matters here; value mismatches belong to C04
        v.fail = None;
        v
    }
}

/// the memory-mapped writer as the executable drives it (`comp oligo` on a file, normalised), with the thread
/// option left to the program in half of the cases and under generated environments (pool-size variable, CPUs
/// available to the process): file size = header + records x row, no byte left unwritten
#[derive(Clone, Debug, Serialize, Deserialize)]
pub struct ExeCase {
    pub recs: Vec<Rec>,
    pub cont: Container,
    pub k: u64,
    pub header: bool,
    pub preset: u8,
    pub threads: usize,
    pub env_profile: u8,
}

pub struct MmapExe;
impl Leg for MmapExe {
    type Case = ExeCase;
    const NAME: &'static str = "mmap-executable";
    fn strategy(_tier: Tier) -> BoxedStrategy<ExeCase> {
        (3u64..=7, any::<bool>(), 0u8..3, prop_oneof![3 => Just(0usize), 1 => Just(1usize), 2 => 2usize..=16], prop_oneof![1 => Just(0u8), 3 => 0u8..128])
            .prop_flat_map(|(k, header, preset, threads, env_profile)| {
                let p = RecParams { max_records: if k >= 7 { 4 } else { 20 }, scale: k as usize, max_len: 60, degenerate_w: 2, bounds: [k as usize, 0, 0], nuc_only: false };
                gen::records_in_container(p).prop_map(move |(recs, cont)| ExeCase { recs, cont, k, header, preset, threads, env_profile })
            })
            .boxed()
    }
    fn check(c: &ExeCase) -> Verdict {
        use super::cmd::{Cmd, Preset, Sub};
        let mut v = Verdict::new();
        let preset = [Preset::Spc, Preset::Csv, Preset::Tsv][c.preset as usize % 3];
        let cmd = Cmd { k: c.k, header: c.header, preset, threads: c.threads, env_profile: c.env_profile, ..Cmd::base(Sub::Oligo) };
        v.class("mmap-executable");
        v.class_if(c.threads == 0, "threads-automatic");
        v.class_if((c.env_profile >> 5) & 3 == 1 || c.env_profile & 3 == 1, "one-cpu-or-pool-of-one");
        v.nontrivial = c.recs.len() >= 2;
        let dir = crate::scratch_dir();
        let input = io::write_input(dir.path(), "in", &c.recs, &c.cont);
        let out = dir.path().join("out.txt");
        let o = super::cmd::run_via_cli(&cmd, &input, None, &out, None);
        if o.timed_out {
            v.class("cli-timeout");
            return v;
        }
        if !o.clean() {
            v.fail("cli-failed", format!("{:?}: {}", cmd.args("IN", None, "OUT"), o.describe()));
            return v;
        }
        let data = o.files.get("").cloned().unwrap_or_default();
        let kcount = model::closed_form_count(c.k as usize) as usize;
        let row_len = kcount * 8 + (kcount - 1) + 1;
        let header_len = if c.header { kcount * c.k as usize + (kcount - 1) + 1 } else { 0 };
        let expect = header_len + c.recs.len() * row_len;
        if data.len() != expect {
            v.fail("file-size", format!("{:?} (environment profile {}): the output has {} bytes, header {} + {} records x row {} = {}", cmd.args("IN", None, "OUT"), c.env_profile, data.len(), header_len, c.recs.len(), row_len, expect));
        } else if let Some(p) = data.iter().position(|&b| b == 0) {
            v.fail("nul-byte", format!("{:?} (environment profile {}): the output holds a NUL byte at offset {} of {}", cmd.args("IN", None, "OUT"), c.env_profile, p, data.len()));
        }
        v
    }
}

/// pykmertools objects whose public data attributes are assigned generated values before they are used
/// (py/attrfuzz.py in a child interpreter with a debug-assertions build of the module): most classes refuse
/// every assignment; where one is accepted, using the object afterwards must still not index outside a buffer
#[derive(Clone, Debug, Serialize, Deserialize)]
pub struct AttrCase {
    pub k: usize,
    pub s: u64,
    pub gk: usize,
    pub w: usize,
    pub m: usize,
    pub seq: String,
    pub seq2: String,
    pub values: Vec<i64>,
}

pub struct PyAttrs;
impl Leg for PyAttrs {
    type Case = AttrCase;
    const NAME: &'static str = "python-attribute-assignments";
    fn strategy(_tier: Tier) -> BoxedStrategy<AttrCase> {
        (1usize..=5, gen::square_strategy(), 1usize..=31, gen::wm_strategy(20, 40), "[ACGTacgtN]{30,200}", "[ACGT]{30,120}", proptest::collection::vec(prop_oneof![4 => 1i64..=8, 1 => 9i64..=31, 1 => Just(0i64), 1 => Just(1i64 << 20)], 1..=4))
            .prop_map(|(k, s, gk, (w, m), seq, seq2, values)| AttrCase { k, s, gk, w, m, seq, seq2, values })
            .boxed()
    }
    fn check(c: &AttrCase) -> Verdict {
        let mut v = Verdict::new();
        v.class("python-attributes");
        let script = format!("{}/py/attrfuzz.py", crate::verif_root());
        let out = std::process::Command::new("python3-vt")
            .arg(&script)
            .arg(serde_json::to_string(c).unwrap())
            .env("VERIF_PYDIR_DBG", std::env::var("VERIF_PYDIR_DBG").unwrap_or_else(|_| format!("{}/.build/py-dbg", crate::verif_root())))
            .env("PYTHONDONTWRITEBYTECODE", "1")
            .output();
        match out {
            Err(_) => v.class("python-infra-error"),
            Ok(o) => {
                use std::os::unix::process::ExitStatusExt;
                if let Some(sig) = o.status.signal() {
                    v.fail("python-object-state-leads-to-unchecked-access", format!("the interpreter died of signal {} after public attributes were assigned {:?}: {}", sig, c.values, crate::util::trunc(&String::from_utf8_lossy(&o.stderr), 400)));
                } else if !o.status.success() {
                    v.class("python-infra-error");
                } else {
                    let r: serde_json::Value = serde_json::from_slice(&o.stdout).unwrap_or_default();
                    let n = r["accepted"].as_array().map(|a| a.len()).unwrap_or(0);
                    v.nontrivial = n > 0;
                    v.class_if(n > 0, "python-attribute-assignment-accepted");
                }
            }
        }
        v
    }
}

pub fn run(ctx: &mut Ctx) {
    let n = ctx.share(ctx.tier.pick(800, 16_000));
    ctx.run_leg::<MmapExe>(n, false, 60);
    super::timeouts_inconclusive(ctx);
    let n = ctx.share(ctx.tier.pick(64, 1_600));
    ctx.run_leg::<PyAttrs>(n, false, 20);
    crate::pyworker::infra_inconclusive(ctx);

    let n = ctx.share(ctx.tier.pick(2_000, 40_000));
    ctx.run_leg::<Cov>(n, true, 0);
    let n = ctx.share(ctx.tier.pick(1_200, 20_000));
    ctx.run_leg::<Ctr>(n, true, 0);
    let n = ctx.share(ctx.tier.pick(1_200, 20_000));
    ctx.run_leg::<Kcgr>(n, true, 0);
    let n = ctx.share(ctx.tier.pick(20_000, 400_000));
    ctx.run_leg::<OligoOne>(n, true, 0);
    let n = ctx.share(ctx.tier.pick(6_000, 100_000));
    ctx.run_leg::<Mmap>(n, true, 300);
    let n = ctx.share(ctx.tier.pick(96, 2_400));
    ctx.run_leg::<MmapGiant>(n, true, 12);
}

pub fn replay(leg: &str, case: &serde_json::Value) -> Option<Result<Verdict, String>> {
    match leg {
        "mmap-writes" => Some(crate::engine::replay_leg::<Mmap>(case)),
        "mmap-giant" => Some(crate::engine::replay_leg::<MmapGiant>(case)),
        "python-attribute-assignments" => Some(crate::engine::replay_leg::<PyAttrs>(case)),
        "mmap-executable" => Some(crate::engine::replay_leg::<MmapExe>(case)),
        "cov-bins" => Some(crate::engine::replay_leg::<Cov>(case)),
        "ctr-partitions" => Some(crate::engine::replay_leg::<Ctr>(case)),
        "kcgr-vectors" => Some(crate::engine::replay_leg::<Kcgr>(case)),
        "oligo-one" => Some(crate::engine::replay_leg::<OligoOne>(case)),
        _ => None,
    }
}
