//! C14 — unchecked indexing and memory-mapped writes always stay inside their buffers.
use super::oligo_exec::{self, OligoCfg, Writer};
use crate::engine::{Ctx, Leg, Tier, Verdict};
use crate::gen::{self, Container, Rec, RecParams, Sched};
use crate::io;
use crate::model;
use proptest::prelude::*;
use serde::{Deserialize, Serialize};

#[derive(Clone, Debug, Serialize, Deserialize)]
pub struct MmapCase {
    pub recs: Vec<Rec>,
    pub k: usize,
    pub delim: String,
    pub header: bool,
    pub threads: usize,
    pub sched: Sched,
}

pub fn check_mmap(c: &MmapCase) -> Verdict {
    let mut v = Verdict::new();
    let n = c.recs.len();
    v.nontrivial = n >= 2 && (c.delim.len() != 1 || c.header || c.threads >= 2);
    v.class(format!("delim-len-{}", c.delim.len()));
    v.class_if(c.header, "header");
    v.class(match &c.sched { Sched::Free => "sched-free", Sched::Perturb(_) => "sched-perturb", Sched::Controlled(_) => "sched-controlled" });
    v.class(format!("k={}", c.k));
    let dir = crate::scratch_dir();
    let input = io::write_input(dir.path(), "in", &c.recs, &Container::plain_fasta());
    let out = dir.path().join("out.txt");
    let cfg = OligoCfg { k: c.k, threads: c.threads, memory: 4usize << 30, writer: Writer::Mmap, norm: true, header: c.header, delim: c.delim.clone() };
    let r = oligo_exec::exec(&io::path_str(&input), &io::path_str(&out), &cfg, &c.sched);
    if let Some((pos, len, cap)) = r.oob_write {
        v.fail(
            "write-outside-mapping",
            format!("write_at(pos {}, {} bytes) reaches past the mapped file of {} bytes (n={}, k={}, delimiter {:?}, header {})", pos, len, cap, n, c.k, c.delim, c.header),
        );
        return v;
    }
    match &r.result {
        Err(p) => {
            v.fail(crate::engine::panic_sig(p), format!("mmap writer panicked: {}", p));
            return v;
        }
        Ok(Err(e)) => {
            v.fail("vectorise-error", format!("vectorise returned Err({})", e));
            return v;
        }
        Ok(Ok(())) => {}
    }
    let kcount = model::closed_form_count(c.k) as usize;
    let row_len = kcount * 8 + (kcount - 1) * c.delim.len() + 1;
    let header_len = if c.header { kcount * c.k + (kcount - 1) * c.delim.len() + 1 } else { 0 };
    let expect = header_len + n * row_len;
    let data = r.output.clone().unwrap_or_default();
    let caps: std::collections::BTreeSet<usize> = r.writes.iter().map(|w| w.2).collect();
    if data.len() != expect || caps.iter().any(|&cap| cap != expect) {
        v.fail(
            "file-size",
            format!("file has {} bytes, mapping capacities {:?}, but header {} + {} records x row {} = {} (delimiter {:?})", data.len(), caps, header_len, n, row_len, expect, c.delim),
        );
        return v;
    }
    // intervals: disjoint and tiling [0, cap)
    let mut iv: Vec<(usize, usize)> = r.writes.iter().filter(|w| w.1 > 0).map(|w| (w.0, w.0 + w.1)).collect();
    iv.sort();
    let mut end = 0usize;
    for (s, e) in &iv {
        if *s < end {
            v.fail("writes-overlap", format!("write [{}, {}) overlaps a previous write ending at {}", s, e, end));
            return v;
        }
        if *s > end {
            v.fail("bytes-unwritten", format!("bytes [{}, {}) are never written", end, s));
            return v;
        }
        end = *e;
    }
    if end != expect {
        v.fail("bytes-unwritten", format!("writes cover [0, {}) of a file of {} bytes", end, expect));
        return v;
    }
    if let Some(p) = data.iter().position(|&b| b == 0) {
        v.fail("nul-byte", format!("output contains a NUL byte at offset {}", p));
    }
    v
}

pub fn delim_strategy() -> BoxedStrategy<String> {
    prop_oneof![
        2 => Just(String::new()),
        4 => "[ ,;|\t]",
        3 => "[ ,;|\t:]{2}",
        1 => "[ ,;|\t:]{3}",
        2 => "[ ,;|\t:]{4}",
    ]
    .boxed()
}

pub struct Mmap;
impl Leg for Mmap {
    type Case = MmapCase;
    const NAME: &'static str = "mmap-writes";
    fn strategy(tier: Tier) -> BoxedStrategy<MmapCase> {
        let max_records = tier.pick(30, 200);
        (prop_oneof![10 => 1usize..=6, 1 => 7usize..=8], delim_strategy(), any::<bool>(), gen::threads_strategy())
            .prop_flat_map(move |(k, delim, header, threads)| {
                let p = RecParams { max_records: if k >= 7 { 3 } else { max_records }, scale: k, max_len: 40, degenerate_w: 2, bounds: [k, 0, 0], nuc_only: false };
                (gen::records(p), gen::sched_strategy(true, 2 * max_records)).prop_map(move |(recs, sched)| {
                    let threads = if matches!(sched, Sched::Controlled(_)) { ((threads - 1) % 6) + 1 } else { threads };
                    MmapCase { recs, k, delim: delim.clone(), header, threads, sched }
                })
            })
            .boxed()
    }
    fn check(c: &MmapCase) -> Verdict {
        check_mmap(c)
    }
}

pub fn run(ctx: &mut Ctx) {
    let n = ctx.share(ctx.tier.pick(6_000, 100_000));
    ctx.run_leg::<Mmap>(n, true, 300);
}

pub fn replay(leg: &str, case: &serde_json::Value) -> Option<Result<Verdict, String>> {
    match leg {
        "mmap-writes" => Some(crate::engine::replay_leg::<Mmap>(case)),
        _ => None,
    }
}
