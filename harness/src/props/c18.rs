//! C18 — minimiser+k-mers iterator agrees with the plain one and conserves all w-mers.
use super::c09::{small_cases, Case};
use crate::engine::{Ctx, Leg, Tier, Verdict};
use crate::gen;
use crate::model;
use kmer::kmer_minimisers::KmerMinimiserGenerator;
use kmer::minimiser::MinimiserGenerator;
use proptest::prelude::*;

pub fn check_case(seq: &[u8], w: usize, m: usize) -> Verdict {
    let mut v = Verdict::new();
    let want_runs = model::minimiser_runs(seq, w, m);
    let wmers = model::canonical_stream(seq, w);
    super::c09::classify(&mut v, seq, w, m, &want_runs);
    v.nontrivial = v.nontrivial && !wmers.is_empty();
    let plain: Vec<(u64, usize, usize)> = MinimiserGenerator::new(seq, w, m).collect();
    let full: Vec<(u64, usize, usize, Vec<u64>)> = KmerMinimiserGenerator::new(seq, w, m).collect();
    let runs: Vec<(u64, usize, usize)> = full.iter().map(|r| (r.0, r.1, r.2)).collect();
    if runs != plain {
        v.fail(
            "runs-differ-from-plain",
            format!("runs of the k-mer-reporting iterator {:?} differ from the plain iterator {:?} (w={}, m={})", runs, plain, w, m),
        );
        return v;
    }
    let concat: Vec<u64> = full.iter().flat_map(|r| r.3.iter().copied()).collect();
    if concat != wmers {
        let sig = if concat.len() < wmers.len() {
            "wmers-lost"
        } else if concat.len() > wmers.len() {
            "wmers-extra"
        } else {
            "wmers-differ"
        };
        v.fail(
            sig,
            format!(
                "concatenated k-mer lists ({} items) != canonical {}-mers of the input ({} items): got {:?}, model {:?}",
                concat.len(),
                w,
                wmers.len(),
                &concat[..concat.len().min(12)],
                &wmers[..wmers.len().min(12)]
            ),
        );
    }
    v
}

pub struct Random;
impl Leg for Random {
    type Case = Case;
    const NAME: &'static str = "random";
    fn strategy(tier: Tier) -> BoxedStrategy<Case> {
        super::c09::strategy(tier, 31, 31)
    }
    fn check(c: &Case) -> Verdict {
        let seq = c.full();
        let mut v = check_case(&seq, c.w, c.m);
        if v.fail.is_none() && seq.len() <= 4096 {
            let base: Vec<(u64, usize, usize, Vec<u64>)> = KmerMinimiserGenerator::new(&seq, c.w, c.m).collect();
            for t in 0..16 {
                let a = crate::util::Aligned::new(&seq, t);
                let g: Vec<(u64, usize, usize, Vec<u64>)> = KmerMinimiserGenerator::new(a.get(), c.w, c.m).collect();
                if g != base {
                    v.fail("depends-on-address-alignment", format!("with the first byte at an address = {} mod 16 the k-mer reporting iterator yields other items (w={}, m={})", t, c.w, c.m));
                    break;
                }
            }
        }
        v
    }
}

/// giant sequences (beyond 2^16 / 2^20 bases, offsets shifted by a leading gap) with windows up to 31
pub struct Giant;
impl Leg for Giant {
    type Case = super::c09::GiantCase;
    const NAME: &'static str = "giant-sequences";
    fn strategy(tier: Tier) -> BoxedStrategy<Self::Case> {
        let (lo, hi) = (66_000, tier.pick(400_000, 3_000_000));
        (gen::wm_strategy(31, 31), prop_oneof![1 => gen::giant(lo, hi, b"ACGTN".to_vec()), 1 => gen::giant_random(lo, hi, b"ACGTNn".to_vec())], prop_oneof![3 => Just(0usize), 1 => 1usize..=70])
            .prop_map(|((w, m), giant, lead_gap)| super::c09::GiantCase { giant, wmode: super::c09::WMode::Small(w - m), m, lead_gap })
            .boxed()
    }
    fn check(c: &Self::Case) -> Verdict {
        let mut v = Verdict::new();
        let seq = c.seq();
        let (w, m) = (c.w(seq.len()), c.m);
        let want = model::minimiser_runs_fast(&seq, w, m);
        v.class(c.giant.label());
        v.class_if(seq.len() > (1 << 20), "len>2^20");
        v.nontrivial = !want.is_empty();
        let plain: Vec<(u64, usize, usize)> = MinimiserGenerator::new(&seq, w, m).collect();
        let mut runs: Vec<(u64, usize, usize)> = Vec::new();
        let mut concat: Vec<u64> = Vec::new();
        for (a, b, e, ks) in KmerMinimiserGenerator::new(&seq, w, m) {
            runs.push((a, b, e));
            concat.extend(ks);
        }
        if runs != plain {
            let p = runs.iter().zip(plain.iter()).position(|(a, b)| a != b).unwrap_or(runs.len().min(plain.len()));
            v.fail("runs-differ-from-plain", format!("{} runs vs {} of the plain iterator, first difference at run {}: {:?} vs {:?} (w={}, m={})", runs.len(), plain.len(), p, runs.get(p), plain.get(p), w, m));
            return v;
        }
        let mut vv = Verdict::new();
        super::c09::compare_big(&mut vv, &runs, &want, w, m);
        if let Some(f) = vv.fail {
            v.fail(f.sig, f.msg);
            return v;
        }
        let mut wmers: Vec<u64> = Vec::with_capacity(concat.len());
        model::for_each_window(&seq, w, |_, f, r| wmers.push(f.min(r)));
        if concat != wmers {
            let p = concat.iter().zip(wmers.iter()).position(|(a, b)| a != b).unwrap_or(concat.len().min(wmers.len()));
            let sig = if concat.len() < wmers.len() { "wmers-lost" } else if concat.len() > wmers.len() { "wmers-extra" } else { "wmers-differ" };
            v.fail(sig, format!("concatenated k-mer lists ({} items) != canonical {}-mers of the input ({} items), first difference at item {}", concat.len(), w, wmers.len(), p));
        }
        v
    }
}

/// the raw bytes 0x00-0x03 (which the plain iterator reads as pre-encoded bases) may occur: only the
/// clauses that need no definition of a base are checked - same runs as the plain iterator, and as many
/// w-mers as the runs hold windows
pub struct RawBytes;
impl Leg for RawBytes {
    type Case = Case;
    const NAME: &'static str = "raw-bytes-differential";
    fn strategy(tier: Tier) -> BoxedStrategy<Case> {
        (super::c09::strategy(tier, 31, 31), proptest::collection::vec((any::<u16>(), 0u8..=3), 1..=6))
            .prop_map(|(mut c, ins)| {
                for (p, b) in ins {
                    if !c.seq.0.is_empty() {
                        let i = crate::util::idx16(p, c.seq.0.len());
                        c.seq.0[i] = b;
                    }
                }
                c.min_len = 0;
                c
            })
            .boxed()
    }
    fn check(c: &Case) -> Verdict {
        let mut v = Verdict::new();
        let seq = &c.seq.0;
        let plain: Vec<(u64, usize, usize)> = MinimiserGenerator::new(seq, c.w, c.m).collect();
        let full: Vec<(u64, usize, usize, Vec<u64>)> = KmerMinimiserGenerator::new(seq, c.w, c.m).collect();
        let runs: Vec<(u64, usize, usize)> = full.iter().map(|r| (r.0, r.1, r.2)).collect();
        v.nontrivial = !plain.is_empty() && seq.iter().any(|&b| b < 4);
        v.class("raw-bytes-0-3");
        if runs != plain {
            v.fail("runs-differ-from-plain", format!("with raw bytes 0x00-0x03 in the input: runs of the k-mer-reporting iterator {:?} differ from the plain iterator {:?} (w={}, m={})", runs, plain, c.w, c.m));
            return v;
        }
        let windows: usize = plain.iter().map(|r| r.2 - r.1 - c.w + 1).sum();
        let listed: usize = full.iter().map(|r| r.3.len()).sum();
        if windows != listed {
            v.fail(if listed < windows { "wmers-lost" } else { "wmers-extra" }, format!("the runs hold {} windows but {} w-mers are listed (w={}, m={})", windows, listed, c.w, c.m));
        }
        v
    }
}

/// offsets beyond 2^32 (see c09.rs): both iterators against the tail's runs shifted by the gap
pub struct Far;
impl Leg for Far {
    type Case = super::c09::FarCase;
    const NAME: &'static str = "offsets-beyond-2^32";
    fn strategy(_tier: Tier) -> BoxedStrategy<Self::Case> {
        super::c09::far_strategy(31)
    }
    fn check(c: &Self::Case) -> Verdict {
        let mut v = Verdict::new();
        let want = c.want();
        v.nontrivial = want.iter().any(|r| r.2 > (1usize << 32));
        v.class("offsets-beyond-2^32");
        let seq = c.seq();
        let plain: Vec<(u64, usize, usize)> = MinimiserGenerator::new(&seq, c.w, c.m).collect();
        let mut runs: Vec<(u64, usize, usize)> = Vec::new();
        let mut concat: Vec<u64> = Vec::new();
        for (a, b, e, ks) in KmerMinimiserGenerator::new(&seq, c.w, c.m) {
            runs.push((a, b, e));
            concat.extend(ks);
        }
        if runs != plain {
            let p = runs.iter().zip(plain.iter()).position(|(a, b)| a != b).unwrap_or(runs.len().min(plain.len()));
            v.fail("runs-differ-from-plain", format!("beyond 2^32: first difference at run {}: {:?} vs plain {:?} (w={}, m={})", p, runs.get(p), plain.get(p), c.w, c.m));
            return v;
        }
        let mut vv = Verdict::new();
        super::c09::compare_big(&mut vv, &runs, &want, c.w, c.m);
        if let Some(f) = vv.fail {
            v.fail(f.sig, f.msg);
            return v;
        }
        if concat != model::canonical_stream(&c.tail.0, c.w) {
            v.fail("wmers-differ", "beyond 2^32: the concatenated k-mer lists differ from the canonical w-mers of the tail");
        }
        v
    }
}

/// first calls of a fresh process made by several threads at once
pub struct Cold;
impl Leg for Cold {
    type Case = super::coldstart::Case;
    const NAME: &'static str = "cold-start-threads";
    fn strategy(_tier: Tier) -> BoxedStrategy<Self::Case> {
        use super::coldstart::Op;
        let op = gen::wm_strategy(31, 31).prop_flat_map(|(w, m)| super::coldstart::small_seq(w).prop_map(move |seq| Op::KmerMinimiser { seq, w, m })).boxed();
        super::coldstart::case_strategy(op)
    }
    fn check(c: &Self::Case) -> Verdict {
        super::coldstart::check(c, "cold-start-wrong-result")
    }
}

/// histories on one thread: k-mer reporting and plain minimiser iterators alive together, advanced in a generated interleaving, dropped early, rebuilt
pub struct Sessions;
impl Leg for Sessions {
    type Case = super::sessions::Session;
    const NAME: &'static str = "call-histories";
    fn strategy(_tier: Tier) -> BoxedStrategy<Self::Case> {
        super::sessions::strategy(&[2, 2, 1])
    }
    fn check(c: &Self::Case) -> Verdict {
        super::sessions::check(c)
    }
}

pub fn run(ctx: &mut Ctx) {
    let ns = ctx.share(ctx.tier.pick(8_000, 160_000));
    ctx.run_leg::<Sessions>(ns, false, 400);

    let nc = ctx.share(ctx.tier.pick(1_600, 24_000));
    ctx.run_leg::<Cold>(nc, false, 40);
    super::coldstart::infra_inconclusive(ctx);

    let maxlen = ctx.tier.pick(8, 11);
    let items = small_cases(maxlen, ctx.shard, ctx.nshards, 31);
    ctx.run_enum(
        "exhaustive",
        &format!("all strings over {{A,C,G,T,N}} of length 0..={} x (w,m) in {:?}", maxlen, super::c09::SMALL_WM),
        items,
        false,
        |c| check_case(&c.seq, c.w, c.m),
    );
    let n = ctx.share(ctx.tier.pick(60_000, 2_000_000));
    ctx.run_leg::<Random>(n, false, 4000);
    let n = ctx.share(ctx.tier.pick(20_000, 400_000));
    ctx.run_leg::<RawBytes>(n, false, 2000);
    let n = ctx.share(ctx.tier.pick(64, 1_600));
    ctx.run_leg::<Giant>(n, false, 12);
    if super::c09::far_enabled(ctx) {
        ctx.run_leg::<Far>(2, false, 0);
    }
}

pub fn replay(leg: &str, case: &serde_json::Value) -> Option<Result<Verdict, String>> {
    match leg {
        "exhaustive" | "random" => Some(crate::engine::replay_leg::<Random>(case)),
        "cold-start-threads" => Some(crate::engine::replay_leg::<Cold>(case)),
        "giant-sequences" => Some(crate::engine::replay_leg::<Giant>(case)),
        "offsets-beyond-2^32" => Some(crate::engine::replay_leg::<Far>(case)),
        "raw-bytes-differential" => Some(crate::engine::replay_leg::<RawBytes>(case)),
        "call-histories" => Some(crate::engine::replay_leg::<Sessions>(case)),
        _ => None,
    }
}
