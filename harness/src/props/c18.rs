//! C18 — minimiser+k-mers iterator agrees with the plain one and conserves all w-mers.
use super::c09::{small_cases, Case};
use crate::engine::{Ctx, Leg, Tier, Verdict};
use crate::gen;
use crate::model;
use kmer::kmer_minimisers::KmerMinimiserGenerator;
use kmer::minimiser::MinimiserGenerator;
use proptest::prelude::*;

pub fn check_case(seq: &[u8], w: usize, m: usize) -> Verdict {
    let mut v = Verdict::new();
    let want_runs = model::minimiser_runs(seq, w, m);
    let wmers = model::canonical_stream(seq, w);
    super::c09::classify(&mut v, seq, w, m, &want_runs);
    v.nontrivial = v.nontrivial && !wmers.is_empty();
    let plain: Vec<(u64, usize, usize)> = MinimiserGenerator::new(seq, w, m).collect();
    let full: Vec<(u64, usize, usize, Vec<u64>)> = KmerMinimiserGenerator::new(seq, w, m).collect();
    let runs: Vec<(u64, usize, usize)> = full.iter().map(|r| (r.0, r.1, r.2)).collect();
    if runs != plain {
        v.fail(
            "runs-differ-from-plain",
            format!("runs of the k-mer-reporting iterator {:?} differ from the plain iterator {:?} (w={}, m={})", runs, plain, w, m),
        );
        return v;
    }
    let concat: Vec<u64> = full.iter().flat_map(|r| r.3.iter().copied()).collect();
    if concat != wmers {
        let sig = if concat.len() < wmers.len() {
            "wmers-lost"
        } else if concat.len() > wmers.len() {
            "wmers-extra"
        } else {
            "wmers-differ"
        };
        v.fail(
            sig,
            format!(
                "concatenated k-mer lists ({} items) != canonical {}-mers of the input ({} items): got {:?}, model {:?}",
                concat.len(),
                w,
                wmers.len(),
                &concat[..concat.len().min(12)],
                &wmers[..wmers.len().min(12)]
            ),
        );
    }
    v
}

pub struct Random;
impl Leg for Random {
    type Case = Case;
    const NAME: &'static str = "random";
    fn strategy(tier: Tier) -> BoxedStrategy<Case> {
        super::c09::strategy(tier, 31, 31)
    }
    fn check(c: &Case) -> Verdict {
        check_case(&c.full(), c.w, c.m)
    }
}

/// first calls of a fresh process made by several threads at once
pub struct Cold;
impl Leg for Cold {
    type Case = super::coldstart::Case;
    const NAME: &'static str = "cold-start-threads";
    fn strategy(_tier: Tier) -> BoxedStrategy<Self::Case> {
        use super::coldstart::Op;
        let op = gen::wm_strategy(31, 31).prop_flat_map(|(w, m)| super::coldstart::small_seq(w).prop_map(move |seq| Op::KmerMinimiser { seq, w, m })).boxed();
        super::coldstart::case_strategy(op)
    }
    fn check(c: &Self::Case) -> Verdict {
        super::coldstart::check(c, "cold-start-wrong-result")
    }
}

pub fn run(ctx: &mut Ctx) {
    let nc = ctx.share(ctx.tier.pick(400, 8_000));
    ctx.run_leg::<Cold>(nc, false, 40);
    super::coldstart::infra_inconclusive(ctx);

    let maxlen = ctx.tier.pick(8, 11);
    let items = small_cases(maxlen, ctx.shard, ctx.nshards, 31);
    ctx.run_enum(
        "exhaustive",
        &format!("all strings over {{A,C,G,T,N}} of length 0..={} x (w,m) in {:?}", maxlen, super::c09::SMALL_WM),
        items,
        false,
        |c| check_case(&c.seq, c.w, c.m),
    );
    let n = ctx.share(ctx.tier.pick(60_000, 2_000_000));
    ctx.run_leg::<Random>(n, false, 4000);
}

pub fn replay(leg: &str, case: &serde_json::Value) -> Option<Result<Verdict, String>> {
    match leg {
        "exhaustive" | "random" => Some(crate::engine::replay_leg::<Random>(case)),
        "cold-start-threads" => Some(crate::engine::replay_leg::<Cold>(case)),
        _ => None,
    }
}
