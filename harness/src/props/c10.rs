//! C10 — minimiser outputs: s2m lists each record's runs; m2s is its exact inversion.
use crate::engine::{guarded, Ctx, Leg, Tier, Verdict};
use crate::gen::{self, Container, Rec, RecParams, Sched};
use crate::io;
use crate::model;
use crate::sched::{self, enumerate_schedules, SchedReport};
use misc::minimisers::{bin_sequences, seq_to_min};
use proptest::prelude::*;
use serde::{Deserialize, Serialize};
use std::collections::BTreeMap;

#[derive(Clone, Debug, Serialize, Deserialize)]
pub struct Case {
    pub recs: Vec<Rec>,
    pub cont: Container,
    pub m: usize,
    /// 0 = one window spanning the whole record
    pub w: usize,
    pub threads: usize,
    pub sched: Sched,
    /// bytes of left-over text at both output paths before the run (0 = the paths do not exist)
    #[serde(default)]
    pub stale: u32,
}

type Run = (String, usize, usize);

/// model: per record its runs as (text, start, end)
pub fn model_runs(recs: &[Rec], w: usize, m: usize) -> Vec<Vec<Run>> {
    recs.iter()
        .map(|r| {
            let weff = if w == 0 { r.seq.0.len().max(m) } else { w };
            model::minimiser_runs(&r.seq, weff, m)
                .into_iter()
                .map(|(v, s, e)| (String::from_utf8(model::decode(v, m)).unwrap(), s, e))
                .collect()
        })
        .collect()
}

pub struct MinOut {
    pub s2m: Result<Vec<u8>, String>,
    pub m2s: Result<Vec<u8>, String>,
    pub report: SchedReport,
}

pub fn exec(input: &str, dir: &std::path::Path, w: usize, m: usize, threads: usize, s: &Sched) -> MinOut {
    let p1 = dir.join("s2m.out");
    let p2 = dir.join("m2s.out");
    io::plant_stale(&p1);
    io::plant_stale(&p2);
    let g = sched::install(s, threads, "min.taken", "min.exit");
    let r1 = guarded(|| seq_to_min(w, m, input, &io::path_str(&p1), threads));
    let report = g.report();
    drop(g);
    let g = sched::install(s, threads, "min.taken", "min.exit");
    let r2 = guarded(|| bin_sequences(w, m, input, &io::path_str(&p2), threads));
    drop(g);
    MinOut {
        s2m: r1.map(|_| std::fs::read(&p1).unwrap_or_default()),
        m2s: r2.map(|_| std::fs::read(&p2).unwrap_or_default()),
        report,
    }
}

fn sorted<T: Ord + Clone>(v: &[T]) -> Vec<T> {
    let mut v = v.to_vec();
    v.sort();
    v
}

/// check both outputs against the model and against each other
pub fn check_outputs(recs: &[Rec], w: usize, m: usize, s2m: &[u8], m2s: &[u8]) -> Result<bool, (String, String)> {
    let want = model_runs(recs, w, m);
    // ---- s2m
    let lines = io::lines_strict(s2m).map_err(|e| ("s2m-malformed".to_string(), e))?;
    if lines.len() != recs.len() {
        return Err(("s2m-line-count".into(), format!("{} lines for {} records", lines.len(), recs.len())));
    }
    let mut got: Vec<(String, Vec<Run>)> = Vec::new();
    for l in &lines {
        got.push(io::parse_s2m_line(l).map_err(|e| ("s2m-malformed".to_string(), e))?);
    }
    for (_, runs) in &got {
        if runs.iter().any(|r| r.0.len() != m || !r.0.bytes().all(|b| b"ACGT".contains(&b))) {
            return Err(("s2m-bad-minimiser-text".into(), format!("a minimiser text is not {} letters over ACGT: {:?}", m, runs)));
        }
    }
    let want_lines: Vec<(String, Vec<Run>)> = recs.iter().zip(want.iter()).map(|(r, w)| (r.id.clone(), w.clone())).collect();
    if sorted(&got) != sorted(&want_lines) {
        // find a record whose line is wrong
        let gs = sorted(&got);
        let ws = sorted(&want_lines);
        let d = gs.iter().zip(ws.iter()).find(|(a, b)| a != b);
        return Err((
            "s2m-lines-differ".into(),
            format!("s2m lines differ from the model (w={}, m={}); first differing pair after sorting: got {:?}, model {:?}", w, m, d.map(|x| x.0), d.map(|x| x.1)),
        ));
    }
    // ---- m2s
    let lines = io::lines_strict(m2s).map_err(|e| ("m2s-malformed".to_string(), e))?;
    let mut got2: BTreeMap<String, Vec<Run>> = BTreeMap::new();
    for l in &lines {
        let (text, list) = io::parse_m2s_line(l).map_err(|e| ("m2s-malformed".to_string(), e))?;
        if got2.insert(text.clone(), sorted(&list)).is_some() {
            return Err(("m2s-text-twice".into(), format!("minimiser {} has two lines", text)));
        }
    }
    let mut want2: BTreeMap<String, Vec<Run>> = BTreeMap::new();
    for (r, runs) in recs.iter().zip(want.iter()) {
        for (t, s, e) in runs {
            want2.entry(t.clone()).or_default().push((r.id.clone(), *s, *e));
        }
    }
    for v in want2.values_mut() {
        v.sort();
    }
    if got2 != want2 {
        let d = want2.iter().find(|(k, v)| got2.get(*k) != Some(v));
        let extra = got2.keys().find(|k| !want2.contains_key(*k));
        return Err((
            "m2s-differs".into(),
            format!("m2s differs from the model (w={}, m={}): model entry {:?} vs got {:?}; extra text {:?}", w, m, d, d.and_then(|(k, _)| got2.get(k)), extra),
        ));
    }
    // ---- cross-check on the actual outputs: m2s is the inversion of s2m
    let mut inv: BTreeMap<String, Vec<Run>> = BTreeMap::new();
    for (id, runs) in &got {
        for (t, s, e) in runs {
            inv.entry(t.clone()).or_default().push((id.clone(), *s, *e));
        }
    }
    for v in inv.values_mut() {
        v.sort();
    }
    if inv != got2 {
        return Err(("m2s-not-inverse-of-s2m".into(), "the minimiser-to-sequence output is not the inversion of the sequence-to-minimiser output".into()));
    }
    let shared = want2.values().any(|l| {
        let mut ids: Vec<&String> = l.iter().map(|x| &x.0).collect();
        ids.dedup();
        ids.len() >= 2
    });
    Ok(shared)
}

fn fail_of(v: &mut Verdict, o: &MinOut, recs: &[Rec], w: usize, m: usize, what: &str) -> Option<bool> {
    let s2m = match &o.s2m {
        Ok(d) => d,
        Err(p) => {
            v.fail(format!("s2m-{}", crate::engine::panic_sig(p)), format!("seq_to_min panicked ({}): {}", what, p));
            return None;
        }
    };
    let m2s = match &o.m2s {
        Ok(d) => d,
        Err(p) => {
            v.fail(format!("m2s-{}", crate::engine::panic_sig(p)), format!("bin_sequences panicked ({}): {}", what, p));
            return None;
        }
    };
    match check_outputs(recs, w, m, s2m, m2s) {
        Ok(shared) => Some(shared),
        Err((s, msg)) => {
            v.fail(s, format!("{} [{}; release order {:?}]", msg, what, o.report.order));
            None
        }
    }
}

pub fn check_case(c: &Case) -> Verdict {
    let mut v = Verdict::new();
    let dir = crate::scratch_dir();
    let input = io::write_input(dir.path(), "in", &c.recs, &c.cont);
    v.class(if c.w == 0 { "w=0" } else { "w>m" });
    v.class(match c.threads { 1 => "threads=1", 2..=3 => "threads=2-3", 4..=8 => "threads=4-8", _ => "threads>8" });
    v.class(match &c.sched { Sched::Free => "sched-free", Sched::Perturb(_) => "sched-perturb", Sched::Controlled(_) => "sched-controlled" });
    v.class(c.cont.label());
    v.class_if(c.m >= 20, "m>=20");
    let short = c.recs.iter().any(|r| r.seq.0.len() < c.m);
    v.class_if(short, "record<m");
    let ids: std::collections::HashSet<&String> = c.recs.iter().map(|r| &r.id).collect();
    v.class_if(ids.len() < c.recs.len(), "duplicate-id");
    v.class_if(c.recs.iter().any(|r| r.seq.0.len() >= 10_000), "record>=10000-bases");
    io::set_stale(c.stale as usize);
    let o = exec(&io::path_str(&input), dir.path(), c.w, c.m, c.threads, &c.sched);
    io::set_stale(0);
    v.class_if(c.stale > 0, "output-paths-hold-an-earlier-result");
    v.class_if(o.report.degraded > 0, "sched-degraded");
    if let Some(shared) = fail_of(&mut v, &o, &c.recs, c.w, c.m, &format!("w={}, m={}, {} threads, {}", c.w, c.m, c.threads, c.cont.label())) {
        v.nontrivial = c.recs.len() >= 3 && shared && c.threads >= 2;
    }
    v
}

pub struct Runs;
impl Leg for Runs {
    type Case = Case;
    const NAME: &'static str = "runs";
    fn strategy(tier: Tier) -> BoxedStrategy<Case> {
        let wm = (prop_oneof![4 => 1usize..=28, 2 => 1usize..=4, 1 => Just(7usize), 1 => Just(28usize)], prop_oneof![2 => Just(0usize), 3 => 1usize..=40])
            .prop_map(|(m, d)| (m, if d == 0 { 0 } else { m + d }));
        (wm, gen::threads_strategy(), prop::bool::weighted(0.05))
            .prop_flat_map(move |((m, w), threads, dup)| {
                let scale = if w == 0 { m } else { w };
                let p = RecParams { max_records: tier.pick(30, 200), scale, max_len: tier.pick(150, 500), degenerate_w: 2, bounds: [m, w, 0], nuc_only: false };
                (gen::records_mixed_in_container(p), gen::sched_strategy(true, 80), any::<u16>(), io::stale_strategy()).prop_map(move |((mut recs, cont), sched, which, stale)| {
                    let dup = dup || which % 16 == 1;
                    if dup && recs.len() >= 2 {
                        // a reused id; half of the time the whole record is repeated (a file concatenated
                        // twice, paired mates with one name): identical (id, start, end) entries
                        let i = crate::util::idx16(which, recs.len() - 1);
                        recs[i + 1].id = recs[i].id.clone();
                        if which % 2 == 0 && (!cont.is_fastq() || !recs[i].seq.0.is_empty()) {
                            recs[i + 1].seq = recs[i].seq.clone();
                        }
                    }
                    // one record of 10 000 - 20 100 bases (a twelfth of the cases): coordinates with five digits, around
                    // 10 000 and 20 000; for w = 0 its length itself is such a coordinate
                    if which % 12 == 5 {
                        let len = [10_000usize, 10_003, 10_009, 10_010, 20_000, 20_007, 12_345, 19_999][(which as usize / 12) % 8] + if w == 0 { 0 } else { (which as usize / 96) % 100 };
                        let mut x = which as u64 | 1 << 20;
                        let seq: Vec<u8> = (0..len).map(|_| { x = crate::util::splitmix(x); b"ACGT"[(x >> 33) as usize & 3] }).collect();
                        recs.push(Rec { id: format!("long{}", which), desc: None, seq: crate::util::Bytes(seq) });
                    }
                    let threads = if matches!(sched, Sched::Controlled(_)) { ((threads - 1) % 6) + 1 } else { threads };
                    Case { recs, cont, m, w, threads, sched, stale }
                })
            })
            .boxed()
    }
    fn check(c: &Case) -> Verdict {
        check_case(c)
    }
}

// ---------------------------------------------------------------------------------------------
// large outputs: thousands of records, so that every worker writes far more than any buffer size

#[derive(Clone, Debug, Serialize, Deserialize)]
pub struct LargeCase {
    /// a few generated records; record i of the file is unit[i % len] rotated by i
    pub unit: Vec<Rec>,
    pub copies: usize,
    pub m: usize,
    pub w: usize,
    pub threads: usize,
}

pub fn large_records(c: &LargeCase) -> Vec<Rec> {
    let mut out = Vec::with_capacity(c.copies);
    for i in 0..c.copies {
        let u = &c.unit[i % c.unit.len()];
        let mut s = u.seq.0.clone();
        if !s.is_empty() {
            let r = i % s.len();
            s.rotate_left(r);
        }
        out.push(Rec { id: format!("{}_{}", u.id, i), desc: None, seq: crate::util::Bytes(s) });
    }
    out
}

pub struct Large;
impl Leg for Large {
    type Case = LargeCase;
    const NAME: &'static str = "large-outputs";
    fn strategy(tier: Tier) -> BoxedStrategy<LargeCase> {
        let copies = tier.pick(1500usize..=3000, 3000usize..=12000);
        (1usize..=12, prop_oneof![1 => Just(0usize), 4 => 1usize..=8], prop_oneof![1 => Just(1usize), 2 => Just(2usize), 3 => 3usize..=16], copies)
            .prop_flat_map(|(m, d, threads, copies)| {
                let w = if d == 0 { 0 } else { m + d };
                let p = RecParams { max_records: 6, scale: if w == 0 { m } else { w }, max_len: 160, degenerate_w: 0, bounds: [m, w, 0], nuc_only: false };
                gen::records_exact(p, 4).prop_map(move |unit| LargeCase { unit, copies, m, w, threads })
            })
            .boxed()
    }
    fn check(c: &LargeCase) -> Verdict {
        let mut v = Verdict::new();
        let recs = large_records(c);
        let dir = crate::scratch_dir();
        let input = io::write_input(dir.path(), "in", &recs, &Container::plain_fasta());
        let o = exec(&io::path_str(&input), dir.path(), c.w, c.m, c.threads, &Sched::Free);
        let bytes = o.s2m.as_ref().map(|d| d.len()).unwrap_or(0);
        v.class("large");
        v.class(match bytes { 0..=65536 => "s2m<=64KiB", 65537..=1048576 => "s2m<=1MiB", _ => "s2m>1MiB" });
        v.nontrivial = bytes > 65536 * c.threads && c.threads >= 2;
        fail_of(&mut v, &o, &recs, c.w, c.m, &format!("large input: {} records, w={}, m={}, {} threads", recs.len(), c.w, c.m, c.threads));
        v
    }
}

#[derive(Clone, Debug, Serialize, Deserialize)]
pub struct EnumCase {
    pub recs: Vec<Rec>,
    pub m: usize,
    pub w: usize,
    pub threads: usize,
    pub only: Option<Vec<u8>>,
}

thread_local! {
    pub static SCHEDULES: std::cell::Cell<(u64, u64, u64)> = std::cell::Cell::new((0, 0, 0));
}

pub fn check_enum(c: &EnumCase, limit: usize) -> Verdict {
    let mut v = Verdict::new();
    let dir = crate::scratch_dir();
    let input = io::write_input(dir.path(), "in", &c.recs, &Container::plain_fasta());
    v.nontrivial = c.recs.len() >= 3;
    v.class(format!("enum-T{}-N{}", c.threads, c.recs.len()));
    let mut failure: Option<Verdict> = None;
    let mut run_one = |choices: &[u8]| -> Option<Vec<usize>> {
        let o = exec(&io::path_str(&input), dir.path(), c.w, c.m, c.threads, &Sched::Controlled(choices.to_vec()));
        let mut vv = Verdict::new();
        fail_of(&mut vv, &o, &c.recs, c.w, c.m, &format!("schedule {:?}", choices));
        if vv.failed() {
            failure = Some(vv);
            return None;
        }
        Some(o.report.branching)
    };
    if let Some(only) = &c.only {
        run_one(only);
    } else {
        let (count, complete) = enumerate_schedules(limit, &mut run_one);
        SCHEDULES.with(|s| {
            let (a, b, t) = s.get();
            s.set((a + count as u64, b + complete as u64, t + (!complete) as u64));
        });
    }
    if let Some(f) = failure {
        v.fail = f.fail;
    }
    v
}

pub struct Enum;
impl Leg for Enum {
    type Case = EnumCase;
    const NAME: &'static str = "sched-enum";
    fn strategy(tier: Tier) -> BoxedStrategy<EnumCase> {
        let (tmax, nmax) = tier.pick((3usize, 5usize), (4, 6));
        (2usize..=tmax, prop_oneof![1 => 0usize..=2, 6 => 3usize..=nmax], 1usize..=5, prop_oneof![1 => Just(0usize), 2 => 1usize..=6])
            .prop_flat_map(|(threads, n, m, d)| {
                let w = if d == 0 { 0 } else { m + d };
                let p = RecParams { max_records: n, scale: if w == 0 { m } else { w }, max_len: 30, degenerate_w: 1, bounds: [m, w, 0], nuc_only: false };
                gen::records_exact(p, n).prop_map(move |recs| EnumCase { recs, m, w, threads, only: None })
            })
            .boxed()
    }
    fn check(c: &EnumCase) -> Verdict {
        check_enum(c, 2000)
    }
}

pub fn run(ctx: &mut Ctx) {
    let n = ctx.share(ctx.tier.pick(3_000, 60_000));
    ctx.run_leg::<Runs>(n, true, 200);
    let n = ctx.share(ctx.tier.pick(64, 1_000));
    ctx.run_leg::<Enum>(n, true, 40);
    let n = ctx.share(ctx.tier.pick(40, 400));
    ctx.run_leg::<Large>(n, true, 20);
    let (s, complete, trunc) = SCHEDULES.with(|s| s.get());
    ctx.out.extra.insert("schedules_enumerated".into(), serde_json::json!(s));
    ctx.out.extra.insert("inputs_with_complete_schedule_enumeration".into(), serde_json::json!(complete));
    ctx.out.extra.insert("inputs_with_truncated_schedule_enumeration".into(), serde_json::json!(trunc));
}

pub fn replay(leg: &str, case: &serde_json::Value) -> Option<Result<Verdict, String>> {
    match leg {
        "runs" => Some(crate::engine::replay_leg::<Runs>(case)),
        "sched-enum" => Some(crate::engine::replay_leg::<Enum>(case)),
        "large-outputs" => Some(crate::engine::replay_leg::<Large>(case)),
        _ => None,
    }
}
