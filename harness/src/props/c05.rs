//! C05 — oligo rows follow input order for any threads, batching, writer path, container, schedule.
use super::c04::rank_table;
use super::oligo_exec::{self, OligoCfg, Writer};
use crate::engine::{Ctx, Leg, Tier, Verdict};
use crate::gen::{self, Container, Rec, RecParams, Sched};
use crate::io;
use crate::sched::enumerate_schedules;
use proptest::prelude::*;
use serde::{Deserialize, Serialize};

#[derive(Clone, Copy, Debug, Serialize, Deserialize, PartialEq, Eq)]
pub enum Mem {
    OneByte,
    OneRecord,
    ThreeRecords,
    Half,
    Max,
}

impl Mem {
    pub fn bytes(self, recs: &[Rec]) -> usize {
        let total: usize = recs.iter().map(|r| r.seq.0.len()).sum();
        let first = recs.first().map(|r| r.seq.0.len()).unwrap_or(1);
        match self {
            Mem::OneByte => 1,
            Mem::OneRecord => first.max(1),
            Mem::ThreeRecords => (3 * total / recs.len().max(1)).max(1),
            Mem::Half => (total / 2).max(1),
            Mem::Max => 4usize << 30,
        }
    }
    /// number of batches the batch writer forms (model of the documented flush rule:
    /// flush when the pending bases reach the limit, and once more at the end)
    pub fn batches(self, recs: &[Rec]) -> usize {
        let lim = self.bytes(recs);
        let (mut b, mut tot, mut pending) = (0, 0usize, 0);
        for r in recs {
            tot += r.seq.0.len();
            pending += 1;
            if tot >= lim {
                b += 1;
                tot = 0;
                pending = 0;
            }
        }
        if pending > 0 {
            b += 1;
        }
        b
    }
}

#[derive(Clone, Debug, Serialize, Deserialize)]
pub struct Case {
    pub recs: Vec<Rec>,
    pub cont: Container,
    pub k: usize,
    pub threads: usize,
    pub mem: Mem,
    pub writer: Writer,
    pub norm: bool,
    pub header: bool,
    pub delim: String,
    pub sched: Sched,
    /// bytes of left-over text at the output path of the generated configuration before it runs
    #[serde(default)]
    pub stale: u32,
    /// a record start moved onto (or next to) a block boundary of the single-line FASTA text
    #[serde(default)]
    pub align: Option<gen::Align>,
}

fn run_cfg(input: &std::path::Path, out: &std::path::Path, cfg: &OligoCfg, s: &Sched) -> Result<(Vec<u8>, crate::sched::SchedReport), (String, String)> {
    let r = oligo_exec::exec(&io::path_str(input), &io::path_str(out), cfg, s);
    match r.result {
        Err(p) => Err((crate::engine::panic_sig(&p), format!("vectorise panicked ({:?}, {} threads): {}", cfg.writer, cfg.threads, p))),
        Ok(Err(e)) => Err(("vectorise-error".into(), format!("vectorise returned Err({})", e))),
        Ok(Ok(())) => Ok((r.output.unwrap_or_default(), r.report)),
    }
}

fn first_diff(a: &[u8], b: &[u8]) -> String {
    let p = a.iter().zip(b.iter()).position(|(x, y)| x != y).unwrap_or(a.len().min(b.len()));
    let line = a[..p.min(a.len())].iter().filter(|&&c| c == b'\n').count();
    format!("lengths {} vs {}, first difference at byte {} (line {})", a.len(), b.len(), p, line)
}

pub fn check_case(c0: &Case) -> Verdict {
    let mut v = Verdict::new();
    let mut c = c0.clone();
    if let Some(a) = &c0.align {
        if gen::align_records(&mut c.recs, a).is_some() {
            v.class(format!("record-start-at-{}{}", a.target, if a.delta == 0 { "" } else if a.delta < 0 { "-inside-header" } else { "-minus" }));
        }
    }
    let c = &c;
    let rt = rank_table(c.k);
    let n = c.recs.len();
    let dir = crate::scratch_dir();
    let base_in = io::write_input(dir.path(), "base", &c.recs, &Container::plain_fasta());
    let gen_in = io::write_input(dir.path(), "gen", &c.recs, &c.cont);
    let base_cfg = OligoCfg { k: c.k, threads: 1, memory: 4usize << 30, writer: Writer::Batch, norm: c.norm, header: c.header, delim: c.delim.clone() };
    let gen_cfg = OligoCfg { k: c.k, threads: c.threads, memory: c.mem.bytes(&c.recs), writer: c.writer, norm: c.norm, header: c.header, delim: c.delim.clone() };
    let batches = if c.writer == Writer::Batch { c.mem.batches(&c.recs) } else { 1 };
    v.class(format!("{:?}", c.writer));
    v.class(match batches { 0 | 1 => "batches<=1", 2 => "batches=2", _ => "batches>=3" });
    v.class(c.cont.label());
    v.class(match c.threads { 1 => "threads=1", 2..=3 => "threads=2-3", 4..=8 => "threads=4-8", _ => "threads>8" });
    v.class(match &c.sched { Sched::Free => "sched-free", Sched::Perturb(_) => "sched-perturb", Sched::Controlled(_) => "sched-controlled" });
    v.class_if(c.header, "header");

    let base = match run_cfg(&base_in, &dir.path().join("base.out"), &base_cfg, &Sched::Free) {
        Ok((b, _)) => b,
        Err((s, m)) => {
            v.fail(format!("baseline-{}", s), m);
            return v;
        }
    };
    // (i) baseline against the model
    let seqs: Vec<&[u8]> = c.recs.iter().map(|r| &r.seq.0[..]).collect();
    if let Err((s, m)) = oligo_exec::check_rows(&base, &seqs, &rt, c.norm, c.header, &c.delim) {
        v.fail(format!("baseline-{}", s), format!("1 thread, batch writer, single-line FASTA: {}", m));
        return v;
    }
    // (ii) the generated configuration gives the same bytes
    let eff_sched = if c.writer == Writer::Batch {
        match &c.sched {
            Sched::Controlled(_) => Sched::Free,
            s => s.clone(),
        }
    } else {
        c.sched.clone()
    };
    io::set_stale(c.stale as usize);
    v.class_if(c.stale > 0, "output-path-holds-an-earlier-result");
    let gen_run = run_cfg(&gen_in, &dir.path().join("gen.out"), &gen_cfg, &eff_sched);
    io::set_stale(0);
    let (got, report) = match gen_run {
        Ok(x) => x,
        Err((s, m)) => {
            v.fail(s, m);
            return v;
        }
    };
    let non_fifo = report.order.windows(2).any(|w| w[0] > w[1]);
    v.class_if(non_fifo, "controlled-nonFIFO");
    v.class_if(report.degraded > 0, "sched-degraded");
    v.nontrivial = n >= 3 && (c.threads >= 2 || batches >= 2 || non_fifo || c.cont != Container::plain_fasta());
    if got != base {
        // say what kind of difference: same multiset of lines = pure order violation
        let mut a: Vec<&[u8]> = got.split(|&b| b == b'\n').collect();
        let mut b: Vec<&[u8]> = base.split(|&b| b == b'\n').collect();
        a.sort();
        b.sort();
        let sig = if a == b { "rows-out-of-order" } else if got.len() != base.len() { "output-size-differs" } else { "rows-differ" };
        v.fail(
            sig,
            format!(
                "output of ({:?}, {} threads, limit {} bytes, {}, schedule order {:?}) differs from the baseline (1 thread, batch writer, single-line FASTA): {}",
                c.writer, c.threads, gen_cfg.memory, c.cont.label(), report.order, first_diff(&got, &base)
            ),
        );
        return v;
    }
    // (iii) the header adds exactly one first line
    if c.header {
        let mut off = base_cfg.clone();
        off.header = false;
        match run_cfg(&base_in, &dir.path().join("off.out"), &off, &Sched::Free) {
            Ok((b, _)) => {
                let hl = rt.texts().join(&c.delim) + "\n";
                let mut want = hl.into_bytes();
                want.extend_from_slice(&b);
                if want != base {
                    v.fail("header-changes-rows", format!("header-on output is not header line + header-off output: {}", first_diff(&base, &want)));
                }
            }
            Err((s, m)) => v.fail(s, m),
        }
    }
    v
}

fn case_strategy(tier: Tier) -> BoxedStrategy<Case> {
    let max_records = tier.pick(40, 300);
    (
        1usize..=4,
        gen::threads_strategy(),
        prop::sample::select(vec![Mem::OneByte, Mem::OneRecord, Mem::ThreeRecords, Mem::Half, Mem::Max]),
        any::<bool>(),
        any::<bool>(),
        any::<bool>(),
        prop::sample::select(vec![" ", ",", "\t"]),
    )
        .prop_flat_map(move |(k, threads, mem, mmap, norm0, header, delim)| {
            let p = RecParams { max_records, scale: 12, max_len: 60, degenerate_w: 1, bounds: [k, 0, 0], nuc_only: false };
            let writer = if mmap { Writer::Mmap } else { Writer::Batch };
            let norm = norm0 || mmap;
            let threads = threads;
            // records whose number of windows is a multiple of 128 or 640: frequencies that are exact ties at the
            // seventh decimal (c/128 exactly representable, c/640 not), where two formatters may round apart
            let ties = prop_oneof![
                5 => Just(Vec::new()),
                1 => proptest::collection::vec((prop::sample::select(vec![128usize, 640, 640, 3200]), 1usize..=3, any::<u64>()), 1..=2),
            ];
            (gen::records_in_container(p), gen::sched_strategy(mmap, 2 * max_records), io::stale_strategy(), prop_oneof![8 => Just(None), 1 => gen::align_strategy(131072).prop_map(Some), 1 => gen::align_strategy(2 << 20).prop_map(Some)], ties, prop_oneof![10 => Just(None), 1 => any::<u16>().prop_map(Some)]).prop_map(move |((mut recs, cont), sched, stale, align, ties, noname)| {
                for (i, (base, j, seed)) in ties.into_iter().enumerate() {
                    let len = base * j + k - 1;
                    let mut s = seed;
                    let seq: Vec<u8> = (0..len).map(|_| { s = crate::util::splitmix(s); b"ACGT"[(s >> 40) as usize % 4] }).collect();
                    let at = (seed as usize) % (recs.len() + 1);
                    recs.insert(at, Rec { id: format!("tie{}", i), desc: None, seq: crate::util::Bytes(seq) });
                }
                // a record without a name ("@" / ">" alone or followed by a description): a record all the same
                if let (Some(x), false) = (noname, recs.is_empty()) {
                    // (a record with neither a name nor bases is the reader library's end-of-input marker: not generated)
                    let i = crate::util::idx16(x, recs.len());
                    if !recs[i].seq.0.is_empty() {
                        recs[i].id = String::new();
                    }
                }
                // the controlled scheduler is used with up to 6 workers
                let threads = if matches!(sched, Sched::Controlled(_)) { ((threads - 1) % 6) + 1 } else { threads };
                // an aligned record start is meaningful for the plain single-line text
                let cont = if align.is_some() && recs.len() >= 2 { Container::plain_fasta() } else { cont };
                Case { recs, cont, k, threads, mem, writer, norm, header, delim: delim.to_string(), sched, stale, align }
            })
        })
        .boxed()
}

pub struct Configs;
impl Leg for Configs {
    type Case = Case;
    const NAME: &'static str = "configs";
    fn strategy(tier: Tier) -> BoxedStrategy<Case> {
        case_strategy(tier)
    }
    fn check(c: &Case) -> Verdict {
        check_case(c)
    }
}

// ---------------------------------------------------------------------------------------------
// bounded-exhaustive schedules of the memory-mapped writer for small inputs

#[derive(Clone, Debug, Serialize, Deserialize)]
pub struct EnumCase {
    pub recs: Vec<Rec>,
    pub k: usize,
    pub threads: usize,
    pub header: bool,
    /// when set, only this schedule is executed (replay of a failing schedule)
    pub only: Option<Vec<u8>>,
}

thread_local! {
    pub static SCHEDULES: std::cell::Cell<(u64, u64, u64)> = std::cell::Cell::new((0, 0, 0)); // (schedules, complete enumerations, truncated)
}

pub fn check_enum(c: &EnumCase, limit: usize) -> Verdict {
    let mut v = Verdict::new();
    let rt = rank_table(c.k);
    let dir = crate::scratch_dir();
    let input = io::write_input(dir.path(), "in", &c.recs, &Container::plain_fasta());
    let base_cfg = OligoCfg { k: c.k, threads: 1, memory: 4usize << 30, writer: Writer::Batch, norm: true, header: c.header, delim: " ".into() };
    let cfg = OligoCfg { threads: c.threads, writer: Writer::Mmap, ..base_cfg.clone() };
    v.nontrivial = c.recs.len() >= 3;
    v.class(format!("enum-T{}-N{}", c.threads, c.recs.len()));
    let base = match run_cfg(&input, &dir.path().join("base.out"), &base_cfg, &Sched::Free) {
        Ok((b, _)) => b,
        Err((s, m)) => {
            v.fail(format!("baseline-{}", s), m);
            return v;
        }
    };
    let seqs: Vec<&[u8]> = c.recs.iter().map(|r| &r.seq.0[..]).collect();
    if let Err((s, m)) = oligo_exec::check_rows(&base, &seqs, &rt, true, c.header, " ") {
        v.fail(format!("baseline-{}", s), m);
        return v;
    }
    let out = dir.path().join("gen.out");
    let mut failure: Option<(String, String, Vec<u8>)> = None;
    let mut run_one = |choices: &[u8]| -> Option<Vec<usize>> {
        match run_cfg(&input, &out, &cfg, &Sched::Controlled(choices.to_vec())) {
            Ok((got, rep)) => {
                if got != base {
                    failure = Some(("rows-out-of-order-or-differ".into(), format!("schedule {:?} (release order {:?}): {}", choices, rep.order, first_diff(&got, &base)), choices.to_vec()));
                    return None;
                }
                Some(rep.branching)
            }
            Err((s, m)) => {
                failure = Some((s, m, choices.to_vec()));
                None
            }
        }
    };
    if let Some(only) = &c.only {
        run_one(only);
    } else {
        let (count, complete) = enumerate_schedules(limit, &mut run_one);
        SCHEDULES.with(|s| {
            let (a, b, t) = s.get();
            s.set((a + count as u64, b + complete as u64, t + (!complete) as u64));
        });
    }
    if let Some((s, m, _)) = failure {
        v.fail(s, m);
    }
    v
}

pub struct Enum;
impl Leg for Enum {
    type Case = EnumCase;
    const NAME: &'static str = "sched-enum";
    fn strategy(tier: Tier) -> BoxedStrategy<EnumCase> {
        let (tmax, nmax) = tier.pick((3usize, 5usize), (4, 7));
        (2usize..=tmax, prop_oneof![1 => 0usize..=2, 6 => 3usize..=nmax], 1usize..=3, any::<bool>())
            .prop_flat_map(|(threads, n, k, header)| {
                let p = RecParams { max_records: n, scale: 6, max_len: 24, degenerate_w: 1, bounds: [k, 0, 0], nuc_only: false };
                gen::records_exact(p, n).prop_map(move |recs| EnumCase { recs, k, threads, header, only: None })
            })
            .boxed()
    }
    fn check(c: &EnumCase) -> Verdict {
        check_enum(c, 3000)
    }
}

// ---------------------------------------------------------------------------------------------
// big outputs: the same relation with outputs next to 64 KiB, 1 MiB, 4 MiB, 8 MiB (16 MiB in the
// thorough tier): a few records repeated many times, k up to 8, so that single batches and whole files
// cross the sizes at which buffered writers, block-wise flushes and direct writes change behaviour

#[derive(Clone, Debug, Serialize, Deserialize)]
pub struct BigCase {
    pub base: Case,
    /// the record list of `base` is repeated until the output has about this many bytes
    pub target_bytes: usize,
    /// a long first record (bases): with limits between the record sizes a small batch precedes a big one
    pub long_first: Option<usize>,
}

fn materialise_big(c: &BigCase) -> Case {
    let mut out = c.base.clone();
    let kcount = crate::model::closed_form_count(c.base.k) as usize;
    let row = kcount * 9;
    let want = (c.target_bytes / row).max(1);
    let mut recs: Vec<Rec> = Vec::with_capacity(want + 1);
    if let Some(l) = c.long_first {
        let unit = c.base.recs.first().map(|r| r.seq.0.clone()).filter(|s| !s.is_empty()).unwrap_or_else(|| b"ACGTTGCA".to_vec());
        recs.push(Rec { id: "long_first".into(), desc: None, seq: crate::util::Bytes(unit.iter().cycle().take(l).copied().collect()) });
    }
    let mut i = 0usize;
    while recs.len() < want && !c.base.recs.is_empty() {
        let r = &c.base.recs[i % c.base.recs.len()];
        recs.push(Rec { id: format!("{}_{}", r.id, i), desc: r.desc.clone(), seq: r.seq.clone() });
        i += 1;
    }
    out.recs = recs;
    out
}

pub struct Big;
impl Leg for Big {
    type Case = BigCase;
    const NAME: &'static str = "big-outputs";
    fn strategy(tier: Tier) -> BoxedStrategy<BigCase> {
        let targets: Vec<usize> = tier.pick(vec![64 << 10, 1 << 20, 4 << 20, 4 << 20, 8 << 20], vec![64 << 10, 1 << 20, 4 << 20, 8 << 20, 16 << 20, 32 << 20]);
        (
            prop_oneof![2 => 3usize..=5, 3 => 6usize..=7, 1 => Just(8usize)],
            gen::threads_strategy(),
            prop::sample::select(vec![Mem::OneRecord, Mem::ThreeRecords, Mem::Half, Mem::Max, Mem::Max]),
            prop::bool::weighted(0.35),
            any::<bool>(),
            prop::bool::weighted(0.6),
            prop::sample::select(vec![" ", ",", "\t"]),
            prop::sample::select(targets),
            (0usize..=40_000, prop_oneof![2 => Just(None), 1 => (1_000usize..=200_000).prop_map(Some)]),
        )
            .prop_flat_map(move |(k, threads, mem, mmap, norm0, header, delim, target, (slack, long_first))| {
                let p = RecParams { max_records: 12, scale: 12, max_len: 60, degenerate_w: 1, bounds: [k, 0, 0], nuc_only: false };
                let writer = if mmap { Writer::Mmap } else { Writer::Batch };
                let norm = norm0 || mmap;
                gen::records_in_container(p).prop_map(move |(mut recs, cont)| {
                    if recs.is_empty() {
                        recs.push(Rec { id: "r".into(), desc: None, seq: crate::util::Bytes(b"ACGTTGCAAGGCTTAACCGGTTACGATCG".to_vec()) });
                    }
                    let cont = if recs.iter().any(|r| r.seq.0.is_empty()) && cont.is_fastq() { Container::plain_fasta() } else { cont };
                    let base = Case { recs, cont, k, threads, mem, writer, norm, header, delim: delim.to_string(), sched: Sched::Free, stale: 0, align: None };
                    BigCase { base, target_bytes: target + slack, long_first }
                })
            })
            .boxed()
    }
    fn check(c: &BigCase) -> Verdict {
        let m = materialise_big(c);
        let mut v = check_case(&m);
        let out_bytes = m.recs.len() * crate::model::closed_form_count(m.k) as usize * 9;
        v.class(match out_bytes { x if x >= (16 << 20) => "output>=16MiB", x if x >= (8 << 20) => "output>=8MiB", x if x >= (4 << 20) => "output>=4MiB", x if x >= (1 << 20) => "output>=1MiB", _ => "output>=64KiB" });
        v.class_if(c.long_first.is_some(), "long-first-record");
        v
    }
}

pub fn run(ctx: &mut Ctx) {
    let n = ctx.share(ctx.tier.pick(160, 3_200));
    ctx.run_leg::<Big>(n, true, 16);

    let n = ctx.share(ctx.tier.pick(6_000, 100_000));
    ctx.run_leg::<Configs>(n, true, 300);
    let n = ctx.share(ctx.tier.pick(160, 3_000));
    ctx.run_leg::<Enum>(n, true, 60);
    let (s, complete, trunc) = SCHEDULES.with(|s| s.get());
    ctx.out.extra.insert("schedules_enumerated".into(), serde_json::json!(s));
    ctx.out.extra.insert("inputs_with_complete_schedule_enumeration".into(), serde_json::json!(complete));
    ctx.out.extra.insert("inputs_with_truncated_schedule_enumeration".into(), serde_json::json!(trunc));
}

pub fn replay(leg: &str, case: &serde_json::Value) -> Option<Result<Verdict, String>> {
    match leg {
        "configs" => Some(crate::engine::replay_leg::<Configs>(case)),
        "sched-enum" => Some(crate::engine::replay_leg::<Enum>(case)),
        "big-outputs" => Some(crate::engine::replay_leg::<Big>(case)),
        _ => None,
    }
}
