//! C03 — canonical k-mer column index is a dense ordered bijection matching the header.
use crate::cli::{run_cli, sv};
use crate::engine::{Ctx, Leg, Tier, Verdict};
use proptest::prelude::*;
use crate::model::{self, RankTable};
use composition::oligo::OligoComputer;
use kmer::kmer::KmerGenerator;
use serde::{Deserialize, Serialize};
use std::collections::HashMap;

#[derive(Clone, Debug, Serialize, Deserialize)]
pub struct CodeCase {
    pub k: usize,
    pub code: u64,
}

#[derive(Clone, Debug, Serialize, Deserialize)]
pub struct HeaderCase {
    pub k: usize,
    /// "lib", "cli-csv", "cli-tsv", "cli-spc"
    pub via: String,
}

struct Maps {
    pos_map: Vec<usize>,
    pos_kmer: HashMap<usize, u64>,
    count: usize,
    rt: RankTable,
}

fn maps(k: usize) -> Maps {
    let (pos_map, pos_kmer, count) = KmerGenerator::kmer_pos_maps(k);
    Maps { pos_map, pos_kmer, count, rt: RankTable::new(k) }
}

/// structural facts about the maps of one k (count, density, inverse, order)
fn check_structure(k: usize, mp: &Maps) -> Verdict {
    let mut v = Verdict::new();
    v.nontrivial = true;
    v.class(format!("structure-k{}", k));
    let want = model::closed_form_count(k) as usize;
    if mp.rt.len() != want {
        v.fail("model-self-check", format!("model rank table has {} entries, closed form {}", mp.rt.len(), want));
        return v;
    }
    if mp.count != want || mp.pos_kmer.len() != want {
        v.fail(
            "column-count",
            format!("k={}: count={} index->kmer map has {} entries, closed form says {}", k, mp.count, mp.pos_kmer.len(), want),
        );
        return v;
    }
    if mp.pos_map.len() as u64 != model::pow4(k) {
        v.fail("pos-map-size", format!("k={}: kmer->index vector has {} entries, expected 4^k", k, mp.pos_map.len()));
        return v;
    }
    let mut prev: Option<u64> = None;
    for r in 0..want {
        match mp.pos_kmer.get(&r) {
            None => {
                v.fail("not-dense", format!("k={}: no k-mer for column {}", k, r));
                return v;
            }
            Some(&c) => {
                if c != mp.rt.table[r] {
                    v.fail("index-to-kmer", format!("k={}: column {} holds k-mer {} but the rank-{} canonical k-mer is {}", k, r, c, r, mp.rt.table[r]));
                    return v;
                }
                if let Some(p) = prev {
                    if p >= c {
                        v.fail("not-ordered", format!("k={}: columns {} and {} are not in increasing code order", k, r - 1, r));
                        return v;
                    }
                }
                prev = Some(c);
            }
        }
    }
    v
}

fn check_code(c: &CodeCase, mp: &Maps) -> Verdict {
    let mut v = Verdict::new();
    let rc = model::rc_code(c.code, c.k);
    // entries at non-canonical codes are unspecified and not inspected
    if c.code > rc {
        v.class("non-canonical-skipped");
        return v;
    }
    v.nontrivial = true;
    v.class_if(c.code == rc, "palindrome");
    let rank = mp.rt.rank(c.code);
    let got = mp.pos_map.get(c.code as usize).copied();
    if got != Some(rank) {
        v.fail("kmer-to-index", format!("k={}: canonical k-mer {} maps to column {:?}, its rank is {}", c.k, c.code, got, rank));
        return v;
    }
    if mp.pos_kmer.get(&rank) != Some(&c.code) {
        v.fail("inverse", format!("k={}: column {} maps back to {:?}, expected {}", c.k, rank, mp.pos_kmer.get(&rank), c.code));
    }
    v
}

pub fn check_header(c: &HeaderCase, dir: &std::path::Path) -> Verdict {
    let mut v = Verdict::new();
    v.nontrivial = true;
    v.class(format!("header-{}", c.via));
    let rt = RankTable::new(c.k);
    let texts = rt.texts();
    let input = dir.join("one.fa");
    std::fs::write(&input, b">r1\nACGTACGTTGCAAGGCTTAACCGGTT\n").unwrap();
    let out = dir.join(format!("hdr_{}_{}.out", c.k, c.via));
    if c.via == "lib" {
        let oc = OligoComputer::new(input.to_string_lossy().to_string(), out.to_string_lossy().to_string(), c.k);
        let h = oc.verif_get_header();
        if h != texts {
            let pos = h.iter().zip(texts.iter()).position(|(a, b)| a != b);
            v.fail("header-lib", format!("k={}: library header differs from the canonical k-mers in rank order (len {} vs {}, first difference at {:?})", c.k, h.len(), texts.len(), pos));
        }
        return v;
    }
    if c.via.starts_with("python-after-edit-") {
        let edit: u64 = c.via["python-after-edit-".len()..].parse().unwrap_or(0);
        match crate::pyworker::ask(&serde_json::json!({"op": "header_mut", "k": c.k, "edit": edit})) {
            Ok(r) => {
                for (i, which) in ["the same computer", "a new computer"].iter().enumerate() {
                    let h: Vec<String> = r["ok"][i].as_array().map(|a| a.iter().map(|x| x.as_str().unwrap_or("").to_string()).collect()).unwrap_or_default();
                    if h != texts {
                        v.fail("header-python-after-caller-edit", format!("k={}: after the caller edited the list it got (edit {}), get_header() of {} returns {} names, first {:?}; expected the {} canonical k-mers", c.k, edit, which, h.len(), h.first(), texts.len()));
                        return v;
                    }
                }
            }
            Err(e) => crate::pyworker::record_error(&mut v, e),
        }
        return v;
    }
    if c.via == "python" {
        match crate::pyworker::ask(&serde_json::json!({"op": "header", "k": c.k})) {
            Ok(r) => {
                let h: Vec<String> = r["ok"].as_array().map(|a| a.iter().map(|x| x.as_str().unwrap_or("").to_string()).collect()).unwrap_or_default();
                if h != texts {
                    let pos = h.iter().zip(texts.iter()).position(|(a, b)| a != b);
                    v.fail("header-python", format!("k={}: OligoComputer({}).get_header() differs from the canonical k-mers in rank order (len {} vs {}, first difference at {:?}; answer {})", c.k, c.k, h.len(), texts.len(), pos, crate::util::trunc(&r.to_string(), 200)));
                }
            }
            Err(e) => crate::pyworker::record_error(&mut v, e),
        }
        return v;
    }
    let (preset, delim) = match c.via.as_str() {
        "cli-csv" => ("csv", ","),
        "cli-tsv" => ("tsv", "\t"),
        _ => ("spc", " "),
    };
    // the header must name the columns whatever the input holds: one record, none at all (empty FASTA and
    // empty FASTQ file), several records, and the same through stdin; every data row has as many values
    let empty_fa = dir.join("none.fa");
    let empty_fq = dir.join("none.fq");
    let three = dir.join("three.fa");
    std::fs::write(&empty_fa, b"").unwrap();
    std::fs::write(&empty_fq, b"").unwrap();
    std::fs::write(&three, b">a\nACGTACGTTGCAAGGCTTAACCGGTT\n>b\nNNNN\n>c\nTTGACCAGTAGGCTAGCTAGGATCGAACG\n").unwrap();
    // first record shorter than k, an empty first record, and a first record without any base
    let short_first = dir.join("short_first.fa");
    std::fs::write(&short_first, b">s\nAC\n>e\n>n\nNNNNNNNNNN\n>r\nACGTACGTTGCAAGGCTTAACCGGTT\n").unwrap();
    let empty_first = dir.join("empty_first.fa");
    std::fs::write(&empty_first, b">e\n>r\nACGTACGTTGCAAGGCTTAACCGGTT\n>s\nA\n").unwrap();
    let inputs: [(&str, &std::path::Path, usize, bool); 7] = [
        ("one record", &input, 1, false),
        ("no record (.fa)", &empty_fa, 0, false),
        ("no record (.fq)", &empty_fq, 0, false),
        ("three records", &three, 3, false),
        ("three records on stdin", &three, 3, true),
        ("first record shorter than k", &short_first, 4, false),
        ("first record empty", &empty_first, 3, false),
    ];
    for counts in [false, true] {
        for (what, inp, nrec, stdin) in inputs.iter() {
            let _ = std::fs::remove_file(&out);
            let ip = inp.to_string_lossy().to_string();
            let mut args = sv(&["comp", "oligo", "-i", if *stdin { "-" } else { &ip }, "-o", &out.to_string_lossy(), "-k", &c.k.to_string(), "-p", preset, "-H", "-t", "2"]);
            if counts {
                args.push("-c".into());
            }
            let data_in = std::fs::read(inp).unwrap();
            let r = run_cli(&args, if *stdin { Some(&data_in[..]) } else { None }, 60);
            if !r.ok() {
                v.fail("header-cli-run", format!("CLI failed on {}: code {:?} stderr {}", what, r.code, r.stderr));
                return v;
            }
            let data = std::fs::read(&out).unwrap_or_default();
            let mut lines = data.split(|&b| b == b'\n');
            let first = lines.next().unwrap_or(&[]);
            let want = texts.join(delim);
            if first != want.as_bytes() {
                v.fail(
                    "header-cli",
                    format!("k={} preset={} counts={} input={}: header line {:?} != expected {:?}", c.k, preset, counts, what, crate::util::trunc(&String::from_utf8_lossy(first), 200), crate::util::trunc(&want, 200)),
                );
                return v;
            }
            let rows: Vec<&[u8]> = lines.filter(|l| !l.is_empty()).collect();
            if rows.len() != *nrec {
                v.fail("header-cli-rows", format!("k={} preset={} counts={} input={}: {} data rows after the header, {} records", c.k, preset, counts, what, rows.len(), nrec));
                return v;
            }
            for (i, row) in rows.iter().enumerate() {
                let cols = String::from_utf8_lossy(row).split(delim).count();
                if cols != texts.len() {
                    v.fail("header-cli-width", format!("k={} preset={} counts={} input={}: row {} has {} values, the header names {} columns", c.k, preset, counts, what, i, cols, texts.len()));
                    return v;
                }
            }
        }
    }
    v
}

pub fn header_cases() -> Vec<HeaderCase> {
    let mut out = Vec::new();
    for k in 1..=8 {
        out.push(HeaderCase { k, via: "lib".into() });
    }
    for k in 1..=8 {
        out.push(HeaderCase { k, via: "python".into() });
    }
    for k in 1..=7 {
        for e in 0..6 {
            out.push(HeaderCase { k, via: format!("python-after-edit-{}", e) });
        }
    }
    for k in 3..=7 {
        for via in ["cli-csv", "cli-tsv", "cli-spc"] {
            out.push(HeaderCase { k, via: via.into() });
        }
    }
    out
}

/// rank tables built for the first time by several threads at once, several k per thread in any order
pub struct Cold;
impl Leg for Cold {
    type Case = super::coldstart::Case;
    const NAME: &'static str = "cold-start-threads";
    fn strategy(_tier: Tier) -> BoxedStrategy<Self::Case> {
        use super::coldstart::Op;
        // mostly a few tables per thread; a third of the cases let every thread build dozens of small tables
        // (threads that ask for different k at overlapping times all through the run)
        let few = super::coldstart::case_strategy(prop_oneof![4 => 1usize..=6, 1 => 7usize..=8].prop_map(|k| Op::PosMaps { k }).boxed());
        let many = super::coldstart::case_strategy_n((1usize..=5).prop_map(|k| Op::PosMaps { k }).boxed(), 40);
        prop_oneof![2 => few, 1 => many].boxed()
    }
    fn check(c: &Self::Case) -> Verdict {
        super::coldstart::check(c, "cold-start-wrong-table")
    }
}

/// hundreds of table constructions for changing k on one thread
pub struct TableHistories;
impl Leg for TableHistories {
    type Case = super::sessions::TableHistory;
    const NAME: &'static str = "table-histories";
    fn strategy(_tier: Tier) -> BoxedStrategy<Self::Case> {
        super::sessions::table_history_strategy()
    }
    fn check(c: &Self::Case) -> Verdict {
        super::sessions::check_table_history(c)
    }
}

pub fn run(ctx: &mut Ctx) {
    let nh = ctx.share(ctx.tier.pick(160, 3_200));
    ctx.run_leg::<TableHistories>(nh, false, 60);

    let nc = ctx.share(ctx.tier.pick(300, 6_000));
    ctx.run_leg::<Cold>(nc, false, 40);
    super::coldstart::infra_inconclusive(ctx);

    let kmax = ctx.tier.pick(9, 11);
    for k in 1..=kmax {
        let mp = maps(k);
        if ctx.shard == k % ctx.nshards {
            ctx.run_enum("structure", &format!("k = 1..={}", kmax), std::iter::once(k), false, |&k| check_structure(k, &mp));
        }
        let (sh, n) = (ctx.shard as u64, ctx.nshards);
        let items = (sh..model::pow4(k)).step_by(n).map(|code| CodeCase { k, code });
        ctx.run_enum("codes-exhaustive", &format!("all 4^k codes for k = 1..={}", kmax), items, false, |c| check_code(c, &mp));
        if !ctx.out.failures.is_empty() {
            return;
        }
    }
    let dir = ctx.workdir.clone();
    let hc: Vec<HeaderCase> = header_cases().into_iter().enumerate().filter(|(i, _)| i % ctx.nshards == ctx.shard).map(|(_, c)| c).collect();
    ctx.run_enum("headers", "library header k=1..=8; Python get_header() k=1..=8; CLI header k=3..=7 x {csv,tsv,spc} x {norm,counts}", hc.into_iter(), false, |c| check_header(c, &dir));
    crate::pyworker::infra_inconclusive(ctx);
}

pub fn replay(leg: &str, case: &serde_json::Value) -> Option<Result<Verdict, String>> {
    match leg {
        "structure" => {
            let k: usize = serde_json::from_value(case.clone()).ok()?;
            Some(crate::engine::guarded(|| check_structure(k, &maps(k))))
        }
        "codes-exhaustive" => {
            let c: CodeCase = serde_json::from_value(case.clone()).ok()?;
            Some(crate::engine::guarded(|| check_code(&c, &maps(c.k))))
        }
        "headers" => {
            let c: HeaderCase = serde_json::from_value(case.clone()).ok()?;
            let d = tempfile::tempdir().unwrap();
            Some(crate::engine::guarded(|| check_header(&c, d.path())))
        }
        "cold-start-threads" => Some(crate::engine::replay_leg::<Cold>(case)),
        "table-histories" => Some(crate::engine::replay_leg::<TableHistories>(case)),
        _ => None,
    }
}
