//! Running the built executable black-box.
#![allow(dead_code)]
use std::io::{Read, Write};
use std::process::{Command, Stdio};
use std::time::{Duration, Instant};

pub struct CliOut {
    pub code: Option<i32>,
    pub signal: Option<i32>,
    pub stdout: Vec<u8>,
    pub stderr: String,
    pub timed_out: bool,
}

impl CliOut {
    pub fn panicked(&self) -> bool {
        self.stderr.contains("panicked at")
    }
    pub fn ok(&self) -> bool {
        self.code == Some(0) && !self.timed_out
    }
}

pub fn cli_path() -> String {
    std::env::var("VERIF_CLI").unwrap_or_else(|_| format!("{}/.build/repo/release/kmertools", crate::verif_root()))
}

pub fn run_cli(args: &[String], stdin: Option<&[u8]>, timeout_s: u64) -> CliOut {
    run_program(&cli_path(), &[], args, stdin, timeout_s)
}

/// the same command line through the Python package's entry point (py/entry.py -> pykmertools.run_cli)
pub fn run_py_entry(args: &[String], stdin: Option<&[u8]>, timeout_s: u64) -> CliOut {
    let script = format!("{}/py/entry.py", crate::verif_root());
    run_program("python3-vt", &[script], args, stdin, timeout_s)
}

thread_local! {
    /// environment of the next program runs of this thread: extra variables, variables to remove, working directory
    pub static RUN_ENV: std::cell::RefCell<(Vec<(String, String)>, bool, Option<std::path::PathBuf>)> = std::cell::RefCell::new((Vec::new(), false, None));
    /// when > 0, the next program runs of this thread may use only that many CPUs (a small container, taskset)
    pub static RUN_CPUS: std::cell::Cell<usize> = std::cell::Cell::new(0);
}

pub fn set_run_cpus(n: usize) {
    RUN_CPUS.with(|c| c.set(n));
}

pub fn set_run_env(vars: Vec<(String, String)>, minimal: bool, cwd: Option<std::path::PathBuf>) {
    RUN_ENV.with(|e| *e.borrow_mut() = (vars, minimal, cwd));
}

pub fn run_program(program: &str, pre: &[String], args: &[String], stdin: Option<&[u8]>, timeout_s: u64) -> CliOut {
    use std::os::unix::process::ExitStatusExt;
    let mut cmd = Command::new(program);
    let (vars, minimal, cwd) = RUN_ENV.with(|e| e.borrow().clone());
    if minimal {
        // a bare environment: only what is needed to start the program
        let path = std::env::var("PATH").unwrap_or_default();
        cmd.env_clear().env("PATH", path);
    }
    for (k, v) in &vars {
        cmd.env(k, v);
    }
    if let Some(d) = &cwd {
        cmd.current_dir(d);
    }
    let cpus = RUN_CPUS.with(|c| c.get());
    if cpus > 0 {
        use std::os::unix::process::CommandExt;
        unsafe {
            cmd.pre_exec(move || {
                // restrict the child to the first `cpus` CPUs it is allowed to use
                let mut cur: libc::cpu_set_t = std::mem::zeroed();
                if libc::sched_getaffinity(0, std::mem::size_of::<libc::cpu_set_t>(), &mut cur) == 0 {
                    let mut set: libc::cpu_set_t = std::mem::zeroed();
                    let mut taken = 0;
                    for i in 0..libc::CPU_SETSIZE as usize {
                        if libc::CPU_ISSET(i, &cur) && taken < cpus {
                            libc::CPU_SET(i, &mut set);
                            taken += 1;
                        }
                    }
                    libc::sched_setaffinity(0, std::mem::size_of::<libc::cpu_set_t>(), &set);
                }
                Ok(())
            });
        }
    }
    cmd.args(pre)
        .args(args)
        .env("VERIF_PYDIR", std::env::var("VERIF_PYDIR").unwrap_or_else(|_| format!("{}/.build/py", crate::verif_root())))
        .env("PYTHONDONTWRITEBYTECODE", "1")
        .env("RUST_BACKTRACE", "0")
        .stdin(if stdin.is_some() { Stdio::piped() } else { Stdio::null() })
        .stdout(Stdio::piped())
        .stderr(Stdio::piped());
    let mut child = cmd.spawn().expect("cannot start the program under test (VERIF_CLI / python3-vt)");
    let mut si = child.stdin.take();
    let data = stdin.map(|d| d.to_vec());
    let writer = std::thread::spawn(move || {
        if let (Some(mut s), Some(d)) = (si.take(), data) {
            let _ = s.write_all(&d);
        }
    });
    let mut so = child.stdout.take().unwrap();
    let mut se = child.stderr.take().unwrap();
    let t_out = std::thread::spawn(move || {
        let mut b = Vec::new();
        let _ = so.read_to_end(&mut b);
        b
    });
    let t_err = std::thread::spawn(move || {
        let mut b = Vec::new();
        let _ = se.read_to_end(&mut b);
        b
    });
    let t0 = Instant::now();
    let mut timed_out = false;
    let status = loop {
        match child.try_wait() {
            Ok(Some(st)) => break st,
            Ok(None) => {
                if t0.elapsed() > Duration::from_secs(timeout_s) {
                    let _ = child.kill();
                    timed_out = true;
                    break child.wait().unwrap();
                }
                std::thread::sleep(Duration::from_millis(2));
            }
            Err(e) => panic!("wait failed: {}", e),
        }
    };
    let _ = writer.join();
    let stdout = t_out.join().unwrap_or_default();
    let stderr = String::from_utf8_lossy(&t_err.join().unwrap_or_default()).to_string();
    CliOut {
        code: status.code(),
        signal: status.signal(),
        stdout,
        stderr,
        timed_out,
    }
}

pub fn sv(a: &[&str]) -> Vec<String> {
    a.iter().map(|s| s.to_string()).collect()
}
