//! A long-lived python3-vt process exposing the Python bindings (py/worker.py).
use serde_json::Value;
use std::io::{BufRead, BufReader, Write};
use std::process::{Child, ChildStdin, ChildStdout, Command, Stdio};

pub struct PyWorker {
    child: Child,
    stdin: ChildStdin,
    stdout: BufReader<ChildStdout>,
}

impl PyWorker {
    pub fn start() -> Result<PyWorker, String> {
        let mut cmd = Command::new("python3-vt");
        if let Ok(pool) = std::env::var("VERIF_PY_POOL") {
            if !pool.is_empty() {
                cmd.env("RAYON_NUM_THREADS", pool);
            }
        }
        let mut child = cmd
            .arg(format!("{}/py/worker.py", crate::verif_root()))
            .env("VERIF_PYDIR", std::env::var("VERIF_PYDIR").unwrap_or_else(|_| format!("{}/.build/py", crate::verif_root())))
            .env("PYTHONDONTWRITEBYTECODE", "1")
            .stdin(Stdio::piped())
            .stdout(Stdio::piped())
            .spawn()
            .map_err(|e| format!("infra: cannot start python3-vt: {}", e))?;
        let stdin = child.stdin.take().unwrap();
        let stdout = BufReader::new(child.stdout.take().unwrap());
        Ok(PyWorker { child, stdin, stdout })
    }

    pub fn ask(&mut self, req: &Value) -> Result<Value, String> {
        writeln!(self.stdin, "{}", req).map_err(|e| format!("python worker write: {}", e))?;
        self.stdin.flush().map_err(|e| e.to_string())?;
        let mut line = String::new();
        let n = self.stdout.read_line(&mut line).map_err(|e| e.to_string())?;
        if n == 0 {
            return Err("python worker died".into());
        }
        serde_json::from_str(&line).map_err(|e| format!("python worker answered {:?}: {}", line, e))
    }
}

impl Drop for PyWorker {
    fn drop(&mut self) {
        let _ = self.child.kill();
        let _ = self.child.wait();
    }
}

thread_local! {
    static WORKER: std::cell::RefCell<Option<PyWorker>> = const { std::cell::RefCell::new(None) };
}

/// ask the (lazily started, restarted after a crash) worker of this thread
pub fn ask(req: &Value) -> Result<Value, String> {
    WORKER.with(|w| {
        let mut w = w.borrow_mut();
        if w.is_none() {
            *w = Some(PyWorker::start()?);
        }
        let r = w.as_mut().unwrap().ask(req);
        if r.is_err() {
            *w = None;
        }
        r
    })
}

pub fn hex(b: &[u8]) -> String {
    b.iter().map(|x| format!("{:02x}", x)).collect()
}

/// record a worker error in a verdict: failures to start the interpreter are infrastructure
/// (reported as inconclusive by `infra_inconclusive`), everything else is a finding
pub fn record_error(v: &mut crate::engine::Verdict, e: String) {
    if e.starts_with("infra:") {
        v.class("python-infra-error");
    } else {
        v.fail("python-worker", e);
    }
}

pub fn infra_inconclusive(ctx: &mut crate::engine::Ctx) {
    if let Some(n) = ctx.out.classes.get("python-infra-error").copied() {
        if n > 0 {
            ctx.out.inconclusive.push(format!("{} cases could not reach the python3-vt worker", n));
        }
    }
}
