mod cli;
mod engine;
mod fuzzdecode;
mod fuzzrun;
mod io;
mod gen;
mod model;
mod props;
mod pyworker;
mod sched;
mod util;

use engine::{ShardOut, Tier};
use serde_json::{json, Value};
use std::collections::{BTreeMap, HashSet};
use std::os::unix::process::ExitStatusExt;
use std::path::{Path, PathBuf};
use std::process::{Command, Stdio};
use std::time::{Duration, Instant};

static SCRATCH: std::sync::OnceLock<PathBuf> = std::sync::OnceLock::new();

/// a fresh temporary directory under the shard's work directory (removed on drop)
pub fn scratch_dir() -> tempfile::TempDir {
    let base = SCRATCH.get_or_init(|| {
        let p = PathBuf::from(verif_root()).join(".work").join(format!("scratch-{}", std::process::id()));
        std::fs::create_dir_all(&p).unwrap();
        p
    });
    tempfile::Builder::new().prefix("c").tempdir_in(base).unwrap()
}

pub fn verif_root() -> String {
    std::env::var("VERIF_ROOT").unwrap_or_else(|_| "/verif".to_string())
}

fn seed_from_env() -> u64 {
    match std::env::var("VERIF_SEED") {
        Ok(s) => s
            .trim()
            .parse::<u64>()
            .or_else(|_| s.trim().parse::<i64>().map(|v| v as u64))
            .unwrap_or_else(|_| util::fnv64(s.as_bytes())),
        Err(_) => 0,
    }
}

fn parse_tier(s: &str) -> Tier {
    match s {
        "quick" => Tier::Quick,
        "thorough" => Tier::Thorough,
        o => {
            eprintln!("unknown tier {}", o);
            std::process::exit(2)
        }
    }
}

#[derive(Clone, Debug)]
struct Known {
    prop: String,
    sig: String,
    text: String,
}

fn load_known() -> Vec<Known> {
    let p = Path::new(&verif_root()).join("KNOWN_FINDINGS.txt");
    let mut out = Vec::new();
    if let Ok(s) = std::fs::read_to_string(p) {
        for line in s.lines() {
            let line = line.trim();
            if let Some(rest) = line.strip_prefix("finding:") {
                let mut prop = String::new();
                let mut sig = String::new();
                let mut text = Vec::new();
                for tok in rest.split_whitespace() {
                    if let Some(v) = tok.strip_prefix("property=") {
                        prop = v.to_string();
                    } else if let Some(v) = tok.strip_prefix("signature=") {
                        sig = v.to_string();
                    } else {
                        text.push(tok);
                    }
                }
                if !prop.is_empty() && !sig.is_empty() {
                    out.push(Known {
                        prop,
                        sig,
                        text: text.join(" "),
                    });
                }
            }
        }
    }
    out
}

fn main() {
    let args: Vec<String> = std::env::args().collect();
    if args.len() < 2 {
        eprintln!("usage: vh check <ID> <tier> | vh shard ... | vh replay <ID> <file> | vh list");
        std::process::exit(2);
    }
    match args[1].as_str() {
        "list" => {
            for p in props::all() {
                println!("{}", p.id);
            }
        }
        "check" => {
            let code = check(&args[2], parse_tier(&args[3]));
            std::process::exit(code);
        }
        "shard" => shard(&args[2..]),
        "replay" => {
            let code = replay_outer(&args[2], &args[3]);
            std::process::exit(code);
        }
        "replay-inner" => {
            let code = replay_inner(&args[2], &args[3]);
            std::process::exit(code);
        }
        "oracle-server" => props::oracle_server(),
        "coldstart" => props::coldstart::child_main(),
        "corpus" => {
            let n = fuzzrun::write_corpus(&args[2], Path::new(&args[3]), seed_from_env());
            println!("{} files", n);
        }
        "fuzz-case" => {
            let data = std::fs::read(&args[4]).expect("artifact");
            match fuzzrun::artifact_case(&args[2], &args[3], &data) {
                Some((leg, case)) => println!("{}", json!({"property": args[2], "leg": leg, "case": case})),
                None => println!("null"),
            }
        }
        o => {
            eprintln!("unknown command {}", o);
            std::process::exit(2);
        }
    }
}

fn shard(a: &[String]) {
    // <ID> <tier> <seed> <i> <n> <workdir> <out>
    let prop = props::find(&a[0]).expect("unknown property");
    let tier = parse_tier(&a[1]);
    let seed: u64 = a[2].parse().unwrap();
    let i: usize = a[3].parse().unwrap();
    let n: usize = a[4].parse().unwrap();
    let workdir = PathBuf::from(&a[5]);
    let out = PathBuf::from(&a[6]);
    std::fs::create_dir_all(&workdir).unwrap();
    let _ = SCRATCH.set(workdir.join("scratch"));
    std::fs::create_dir_all(workdir.join("scratch")).unwrap();
    // the Python worker of this shard gets a pool size of its own (the extension's pool reads the variable once)
    std::env::set_var("VERIF_PY_POOL", ["", "1", "2", "3", "", "5", "7", ""][i % 8]);
    engine::install_panic_hook();
    let known: Vec<String> = load_known().into_iter().filter(|k| k.prop == prop.id).map(|k| k.sig).collect();
    let mut ctx = engine::Ctx::new(prop.id, tier, seed, i, n, workdir, known);
    ctx.run_regress(prop.replay);
    (prop.run)(&mut ctx);
    let so = ctx.finish();
    std::fs::write(&out, serde_json::to_vec(&so).unwrap()).unwrap();
}

fn tail(path: &Path, n: usize) -> String {
    let s = std::fs::read(path).unwrap_or_default();
    let s = String::from_utf8_lossy(&s).to_string();
    let lines: Vec<&str> = s.lines().collect();
    let start = lines.len().saturating_sub(n);
    lines[start..].join("\n")
}

fn check(id: &str, tier: Tier) -> i32 {
    let t0 = Instant::now();
    let prop = match props::find(id) {
        Some(p) => p,
        None => {
            println!("INCONCLUSIVE property={} reason=unknown-property", id);
            return 2;
        }
    };
    let seed = seed_from_env();
    let nshards = std::env::var("VERIF_SHARDS")
        .ok()
        .and_then(|s| s.parse().ok())
        .unwrap_or(tier.pick(prop.shards.0, prop.shards.1));
    let watchdog = Duration::from_secs(tier.pick(prop.watchdog.0, prop.watchdog.1));
    let root = PathBuf::from(verif_root());
    let work = root.join(".work").join(format!("{}-{}-{}", id, tier.name(), std::process::id()));
    let _ = std::fs::remove_dir_all(&work);
    std::fs::create_dir_all(&work).unwrap();
    let exe = std::env::current_exe().unwrap();
    // the same harness built without debug assertions and overflow checks (the flavour users of the crates run):
    // every second shard executes it, so that code which behaves differently in the two flavours is met in both
    let plain: Option<PathBuf> = std::env::var("VERIF_VH_PLAIN").ok().map(PathBuf::from).filter(|p| p.exists());
    let mut plain_shards = 0usize;
    let mut children = Vec::new();
    for i in 0..nshards {
        let exe = match &plain {
            Some(p) if i % 2 == 1 => {
                plain_shards += 1;
                p.clone()
            }
            _ => exe.clone(),
        };
        let wd = work.join(format!("shard{}", i));
        std::fs::create_dir_all(&wd).unwrap();
        let out = wd.join("out.json");
        let stderr = std::fs::File::create(wd.join("stderr.txt")).unwrap();
        let stdout = std::fs::File::create(wd.join("stdout.txt")).unwrap();
        let child = Command::new(&exe)
            .args(["shard", id, tier.name(), &seed.to_string(), &i.to_string(), &nshards.to_string()])
            .arg(&wd)
            .arg(&out)
            .stdin(Stdio::null())
            .stdout(stdout)
            .stderr(stderr)
            .spawn()
            .expect("spawn shard");
        children.push((i, wd, out, child, None::<std::process::ExitStatus>, false));
    }
    // wait with watchdog
    loop {
        let mut running = 0;
        for c in children.iter_mut() {
            if c.4.is_none() {
                match c.3.try_wait() {
                    Ok(Some(st)) => c.4 = Some(st),
                    Ok(None) => {
                        running += 1;
                        if t0.elapsed() > watchdog {
                            let _ = c.3.kill();
                            c.5 = true;
                        }
                    }
                    Err(_) => {}
                }
            }
        }
        if running == 0 {
            break;
        }
        std::thread::sleep(Duration::from_millis(30));
    }

    let known = load_known();
    let mut merged = ShardOut::default();
    let mut hashes: HashSet<u64> = HashSet::new();
    let mut inconclusive: Vec<String> = Vec::new();
    let mut violations: Vec<(String, String, String)> = Vec::new(); // (sig, msg, replay)
    for (i, wd, out, _child, status, timed_out) in children.iter() {
        let status = status.unwrap();
        if *timed_out {
            inconclusive.push(format!("shard {} exceeded the watchdog of {:?}", i, watchdog));
            continue;
        }
        let so: Option<ShardOut> = std::fs::read(out).ok().and_then(|b| serde_json::from_slice(&b).ok());
        match (status.success(), so) {
            (true, Some(so)) => {
                merged.evaluations += so.evaluations;
                merged.enum_nontrivial += so.enum_nontrivial;
                hashes.extend(so.nontrivial_hashes.iter().copied());
                for (k, v) in so.classes {
                    *merged.classes.entry(k).or_insert(0) += v;
                }
                for (k, v) in so.excluded_known {
                    *merged.excluded_known.entry(k).or_insert(0) += v;
                }
                for s in so.samples {
                    if merged.samples.len() < 8 {
                        merged.samples.push(s);
                    }
                }
                for (k, v) in so.legs {
                    let e = merged.legs.entry(k).or_default();
                    e.evaluations += v.evaluations;
                    e.nontrivial += v.nontrivial;
                    e.exhaustive |= v.exhaustive;
                    if !v.bound.is_empty() {
                        e.bound = v.bound;
                    }
                    e.wall_s = e.wall_s.max(v.wall_s);
                }
                for (k, v) in so.extra {
                    // numeric extras are summed, others kept from the first shard
                    match (merged.extra.get(&k).cloned(), &v) {
                        (Some(Value::Number(a)), Value::Number(b)) if a.is_u64() && b.is_u64() => {
                            merged.extra.insert(k, json!(a.as_u64().unwrap() + b.as_u64().unwrap()));
                        }
                        (None, _) => {
                            merged.extra.insert(k, v);
                        }
                        _ => {}
                    }
                }
                for f in so.failures {
                    violations.push((f.sig, f.msg, f.replay));
                }
                inconclusive.extend(so.inconclusive);
            }
            _ => {
                // dead shard
                let err = tail(&wd.join("stderr.txt"), 30);
                let sig = status.signal();
                let ub = err.contains("unsafe precondition(s) violated");
                let mem = matches!(sig, Some(libc::SIGSEGV) | Some(libc::SIGBUS) | Some(libc::SIGABRT) | Some(libc::SIGILL));
                let journal = wd.join("current.json");
                if (ub || mem) && prop.abort_is_violation && journal.exists() {
                    let dir = root.join("replays").join(id);
                    let _ = std::fs::create_dir_all(&dir);
                    let dst = dir.join(format!("abort__shard{}.json", i));
                    let mut body: Value = serde_json::from_slice(&std::fs::read(&journal).unwrap()).unwrap_or(json!({}));
                    body["signature"] = json!(if ub { "ub-check-abort" } else { "fatal-signal" });
                    body["message"] = json!(util::trunc(&err, 3000));
                    let _ = std::fs::write(&dst, serde_json::to_vec_pretty(&body).unwrap());
                    violations.push((
                        body["signature"].as_str().unwrap().to_string(),
                        format!("shard died (signal {:?}): {}", sig, util::trunc(&err, 600)),
                        dst.to_string_lossy().to_string(),
                    ));
                } else {
                    inconclusive.push(format!(
                        "shard {} died (status {:?}, signal {:?}){}: {}",
                        i,
                        status.code(),
                        sig,
                        if ub || mem { " — memory-safety abort, reported under C14" } else { "" },
                        util::trunc(&err, 600)
                    ));
                }
            }
        }
    }
    // ---- libFuzzer campaigns (thorough tier only)
    let mut fuzz_report: Vec<Value> = Vec::new();
    if tier == Tier::Thorough && std::env::var("VERIF_NO_FUZZ").is_err() {
        let plans = fuzzrun::plans(id);
        if !plans.is_empty() {
            match fuzzrun::build() {
                Err(e) => inconclusive.push(format!("fuzz build: {}", e)),
                Ok(()) => {
                    for plan in plans {
                        match fuzzrun::campaign(&plan, &work, seed) {
                            Err(e) => inconclusive.push(format!("fuzz campaign {}: {}", plan.target, e)),
                            Ok(out) => {
                                let mut confirmed = 0;
                                for (ai, art) in out.artifacts.iter().enumerate() {
                                    let data = std::fs::read(art).unwrap_or_default();
                                    let case = fuzzrun::artifact_case(id, plan.target, &data);
                                    let (leg, case) = match case {
                                        Some(x) => x,
                                        None => continue,
                                    };
                                    let dir = root.join("replays").join(id);
                                    let _ = std::fs::create_dir_all(&dir);
                                    let rp = dir.join(format!("fuzz__{}_{}.json", plan.target, ai));
                                    let body = json!({"property": id, "leg": leg, "signature": "fuzz-artifact", "message": util::trunc(&out.log_tail, 2000), "case": case, "artifact_hex": util::render_bytes(&data)});
                                    let _ = std::fs::write(&rp, serde_json::to_vec_pretty(&body).unwrap());
                                    // confirm through the plain check function in a child process
                                    let st = Command::new(&exe).args(["replay-inner", id]).arg(&rp).stdout(Stdio::piped()).stderr(Stdio::null()).output();
                                    match st {
                                        Ok(o) if o.status.code() == Some(1) => {
                                            let txt = String::from_utf8_lossy(&o.stdout).to_string();
                                            let sig = txt.lines().find_map(|l| l.strip_prefix("replay fails: signature=")).map(|l| l.split(" : ").next().unwrap_or("fuzz").to_string()).unwrap_or_else(|| "fuzz-artifact".into());
                                            violations.push((sig, format!("libFuzzer target {} found: {}", plan.target, util::trunc(&txt, 600)), rp.to_string_lossy().to_string()));
                                            confirmed += 1;
                                        }
                                        Ok(o) if o.status.code().is_none() && prop.abort_is_violation => {
                                            violations.push(("fatal-signal".into(), format!("libFuzzer target {}: the replayed case kills the process", plan.target), rp.to_string_lossy().to_string()));
                                            confirmed += 1;
                                        }
                                        Ok(o) if o.status.code() == Some(0) => {
                                            // e.g. the artifact belongs to the sibling property served by the same target
                                            let _ = std::fs::remove_file(&rp);
                                        }
                                        _ => inconclusive.push(format!("fuzz artifact {:?} of target {} could not be replayed", art, plan.target)),
                                    }
                                }
                                merged.evaluations += out.execs;
                                fuzz_report.push(json!({"target": plan.target, "executions": out.execs, "artifacts": out.artifacts.len(), "confirmed_violations": confirmed,
                                    "jobs": plan.jobs, "max_len": plan.max_len, "corpus_seeds_per_job": out.corpus_seeds, "wall_s": out.wall_s}));
                                if out.execs == 0 {
                                    inconclusive.push(format!("fuzz campaign {} executed nothing: {}", plan.target, util::trunc(&out.log_tail, 400)));
                                }
                            }
                        }
                    }
                }
            }
        }
    }
    let distinct = hashes.len() as u64 + merged.enum_nontrivial;
    let wall = t0.elapsed().as_secs_f64();

    // evidence
    let exhaustive_all = !merged.legs.is_empty() && merged.legs.values().all(|l| l.exhaustive);
    let mut coverage = json!({
        "evaluations": merged.evaluations,
        "distinct_nontrivial": distinct,
        "rule": prop.rule,
        "samples": merged.samples,
        "exhaustive": exhaustive_all,
        "classes": merged.classes,
        "legs": merged.legs,
        "excluded_known": merged.excluded_known,
        "shards": nshards,
        "inconclusive": inconclusive,
    });
    for (k, v) in merged.extra.iter() {
        coverage[k] = v.clone();
    }
    if !fuzz_report.is_empty() {
        coverage["fuzz_campaigns"] = json!(fuzz_report);
    }
    coverage["shards_by_build"] = json!({"debug-assertions+overflow-checks": nshards - plain_shards, "plain-release": plain_shards});
    let mut uniq: BTreeMap<String, (String, String)> = BTreeMap::new();
    for (sig, msg, replay) in violations.iter() {
        uniq.entry(sig.clone()).or_insert((msg.clone(), replay.clone()));
    }
    coverage["violation_details"] = json!(uniq
        .iter()
        .map(|(s, (m, r))| json!({"signature": s, "message": m, "replay": r}))
        .collect::<Vec<_>>());
    let evidence = json!({
        "property_id": id,
        "tier": tier.name(),
        "seed": seed as i64,
        "level": "exploration",
        "coverage": coverage,
        "assumptions": prop.assumptions,
        "wall_s": wall,
        "violations": uniq.len(),
    });
    let evdir = root.join("evidence");
    let _ = std::fs::create_dir_all(&evdir);
    std::fs::write(evdir.join(format!("{}.json", id)), serde_json::to_vec_pretty(&evidence).unwrap()).unwrap();

    // report
    for k in known.iter().filter(|k| k.prop == id) {
        let n = merged.excluded_known.get(&k.sig).copied().unwrap_or(0);
        println!("KNOWN-FINDING: property={} {} (signature={}, {} cases excluded in this run)", id, k.text, k.sig, n);
    }
    println!(
        "{} {}: {} evaluations, {} distinct non-trivial, {} shards, {:.1}s",
        id,
        tier.name(),
        merged.evaluations,
        distinct,
        nshards,
        wall
    );
    let keep = std::env::var("VERIF_KEEP_WORK").is_ok();
    if !keep {
        let _ = std::fs::remove_dir_all(&work);
    }
    if !uniq.is_empty() {
        for (sig, (msg, replay)) in uniq.iter() {
            println!("violation signature={} : {}", sig, util::trunc(msg, 800));
            println!("VIOLATION property={} replay={}", id, replay);
        }
        return 1;
    }
    if !inconclusive.is_empty() || merged.evaluations == 0 {
        for r in inconclusive.iter() {
            println!("INCONCLUSIVE property={} reason={}", id, util::trunc(&r.replace('\n', " | "), 900));
        }
        if merged.evaluations == 0 {
            println!("INCONCLUSIVE property={} reason=no-evaluations", id);
        }
        return 2;
    }
    0
}

fn replay_inner(id: &str, file: &str) -> i32 {
    engine::install_panic_hook();
    let prop = props::find(id).expect("unknown property");
    let body: Value = serde_json::from_slice(&std::fs::read(file).expect("read replay")).expect("replay json");
    let leg = body["leg"].as_str().unwrap_or("");
    match (prop.replay)(leg, &body["case"]) {
        None => {
            println!("INCONCLUSIVE property={} reason=unknown-leg-{}", id, leg);
            2
        }
        Some(Err(e)) => {
            println!("INCONCLUSIVE property={} reason={}", id, e);
            2
        }
        Some(Ok(v)) => match v.fail {
            Some(f) => {
                println!("replay fails: signature={} : {}", f.sig, f.msg);
                println!("VIOLATION property={} replay={}", id, file);
                1
            }
            None => {
                println!("replay passes: property={} leg={}", id, leg);
                0
            }
        },
    }
}

fn replay_outer(id: &str, file: &str) -> i32 {
    let exe = std::env::current_exe().unwrap();
    let st = Command::new(exe).args(["replay-inner", id, file]).status().expect("spawn");
    if let Some(c) = st.code() {
        return c;
    }
    let prop = props::find(id);
    if prop.map(|p| p.abort_is_violation).unwrap_or(false) {
        println!("replay died with signal {:?}", st.signal());
        println!("VIOLATION property={} replay={}", id, file);
        1
    } else {
        println!("INCONCLUSIVE property={} reason=replay-died-signal-{:?}", id, st.signal());
        2
    }
}
