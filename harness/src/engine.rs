//! Generic search engine: proptest-driven legs, bounded-exhaustive legs, statistics, journaling,
//! known-finding handling, replay files.
use crate::util::{fnv64, mix_seed, trunc};
use proptest::strategy::{Strategy, ValueTree};
use proptest::test_runner::{Config, RngAlgorithm, TestCaseError, TestError, TestRng, TestRunner};
use serde::de::DeserializeOwned;
use serde::{Deserialize, Serialize};
use serde_json::{json, Value};
use std::cell::{Cell, RefCell};
use std::collections::{BTreeMap, HashSet};
use std::panic::{catch_unwind, AssertUnwindSafe};
use std::path::PathBuf;
use std::sync::Mutex;

#[derive(Clone, Copy, Debug, PartialEq, Eq)]
pub enum Tier {
    Quick,
    Thorough,
}

impl Tier {
    pub fn name(self) -> &'static str {
        match self {
            Tier::Quick => "quick",
            Tier::Thorough => "thorough",
        }
    }
    /// pick by tier
    pub fn pick<T>(self, q: T, t: T) -> T {
        match self {
            Tier::Quick => q,
            Tier::Thorough => t,
        }
    }
}

#[derive(Clone, Debug, Serialize, Deserialize)]
pub struct Fail {
    pub sig: String,
    pub msg: String,
}

#[derive(Clone, Debug, Default)]
pub struct Verdict {
    pub classes: Vec<String>,
    pub nontrivial: bool,
    pub fail: Option<Fail>,
}

impl Verdict {
    pub fn new() -> Self {
        Verdict::default()
    }
    pub fn class(&mut self, c: impl Into<String>) {
        self.classes.push(c.into());
    }
    pub fn class_if(&mut self, cond: bool, c: &str) {
        if cond {
            self.classes.push(c.to_string());
        }
    }
    /// record the first failure only
    pub fn fail(&mut self, sig: impl Into<String>, msg: impl Into<String>) {
        if self.fail.is_none() {
            self.fail = Some(Fail {
                sig: sig.into(),
                msg: trunc(&msg.into(), 4000),
            });
        }
    }
    pub fn failed(&self) -> bool {
        self.fail.is_some()
    }
}

#[derive(Clone, Debug, Serialize, Deserialize, Default)]
pub struct FailureRec {
    pub leg: String,
    pub sig: String,
    pub msg: String,
    pub replay: String,
}

#[derive(Clone, Debug, Serialize, Deserialize, Default)]
pub struct LegStat {
    pub evaluations: u64,
    pub nontrivial: u64,
    pub exhaustive: bool,
    pub bound: String,
    pub wall_s: f64,
}

#[derive(Clone, Debug, Serialize, Deserialize, Default)]
pub struct ShardOut {
    pub prop: String,
    pub shard: usize,
    pub evaluations: u64,
    /// hashes of distinct non-trivial cases of randomly generated legs
    pub nontrivial_hashes: Vec<u64>,
    /// non-trivial cases of exhaustive legs (distinct by construction)
    pub enum_nontrivial: u64,
    pub classes: BTreeMap<String, u64>,
    pub samples: Vec<Value>,
    pub excluded_known: BTreeMap<String, u64>,
    pub failures: Vec<FailureRec>,
    pub legs: BTreeMap<String, LegStat>,
    pub extra: BTreeMap<String, Value>,
    pub inconclusive: Vec<String>,
}

pub struct Ctx {
    pub prop: String,
    pub tier: Tier,
    pub seed: u64,
    pub shard: usize,
    pub nshards: usize,
    pub workdir: PathBuf,
    pub known: Vec<String>,
    pub out: ShardOut,
    hashes: HashSet<u64>,
    pub max_samples: usize,
}

// ---------------------------------------------------------------------------------------------
// panic capture

static PANICS: Mutex<Vec<String>> = Mutex::new(Vec::new());

pub fn install_panic_hook() {
    std::panic::set_hook(Box::new(|info| {
        let loc = info
            .location()
            .map(|l| format!("{}:{}", l.file(), l.line()))
            .unwrap_or_else(|| "?".into());
        let msg = if let Some(s) = info.payload().downcast_ref::<&str>() {
            s.to_string()
        } else if let Some(s) = info.payload().downcast_ref::<String>() {
            s.clone()
        } else {
            "<non-string panic>".into()
        };
        if msg.contains("unsafe precondition(s) violated") {
            // about to abort (e.g. a violated unsafe precondition): leave the reason on stderr for the runner
            eprintln!("non-unwinding panic: {} @ {}", msg, loc);
        }
        if let Ok(mut p) = PANICS.lock() {
            if p.len() < 8 {
                p.push(format!("{} @ {}", msg, loc));
            }
        }
        crate::sched::abort_all();
    }));
}

/// Run `f`, converting an unwinding panic into Err("message @ file:line").
pub fn guarded<T>(f: impl FnOnce() -> T) -> Result<T, String> {
    if let Ok(mut p) = PANICS.lock() {
        p.clear();
    }
    match catch_unwind(AssertUnwindSafe(f)) {
        Ok(v) => Ok(v),
        Err(_) => {
            let p = PANICS.lock().map(|p| p.first().cloned()).ok().flatten();
            Err(p.unwrap_or_else(|| "panic (no record)".into()))
        }
    }
}

/// signature of a panic text: file name + leading words of the message, no line numbers
pub fn panic_sig(p: &str) -> String {
    let (msg, loc) = match p.rsplit_once(" @ ") {
        Some((m, l)) => (m, l),
        None => (p, "?"),
    };
    let file = loc.rsplit('/').next().unwrap_or(loc);
    let file = file.split(':').next().unwrap_or(file);
    let words: Vec<&str> = msg
        .split(|c: char| !c.is_ascii_alphabetic())
        .filter(|w| !w.is_empty())
        .take(5)
        .collect();
    format!("panic:{}:{}", file, words.join("-"))
}

// ---------------------------------------------------------------------------------------------

pub trait Leg {
    type Case: Serialize + DeserializeOwned + std::fmt::Debug + Clone;
    const NAME: &'static str;
    fn strategy(tier: Tier) -> proptest::strategy::BoxedStrategy<Self::Case>;
    fn check(case: &Self::Case) -> Verdict;
}

impl Ctx {
    pub fn new(prop: &str, tier: Tier, seed: u64, shard: usize, nshards: usize, workdir: PathBuf, known: Vec<String>) -> Self {
        Ctx {
            prop: prop.to_string(),
            tier,
            seed,
            shard,
            nshards,
            workdir,
            known,
            out: ShardOut {
                prop: prop.to_string(),
                shard,
                ..Default::default()
            },
            hashes: HashSet::new(),
            max_samples: 4,
        }
    }

    /// share of a total amount of work for this shard
    pub fn share(&self, total: u64) -> u64 {
        let n = self.nshards as u64;
        total / n + if (self.shard as u64) < total % n { 1 } else { 0 }
    }

    fn journal(&self, leg: &str, case: &Value) {
        let p = self.workdir.join("current.json");
        let _ = std::fs::write(
            p,
            serde_json::to_vec(&json!({"property": self.prop, "leg": leg, "case": case})).unwrap(),
        );
    }

    fn clear_journal(&self) {
        let _ = std::fs::remove_file(self.workdir.join("current.json"));
    }

    fn account(&mut self, leg: &str, case_json: &Value, v: &Verdict, hashed: bool) {
        self.out.evaluations += 1;
        let ls = self.out.legs.entry(leg.to_string()).or_default();
        ls.evaluations += 1;
        for c in &v.classes {
            *self.out.classes.entry(c.clone()).or_insert(0) += 1;
        }
        if v.nontrivial {
            let fresh = if hashed {
                let s = serde_json::to_string(case_json).unwrap();
                let h = fnv64(format!("{}|{}", leg, s).as_bytes());
                self.hashes.insert(h)
            } else {
                self.out.enum_nontrivial += 1;
                true
            };
            if fresh {
                ls.nontrivial += 1;
                let nleg = self.out.samples.iter().filter(|s| s["leg"] == leg).count();
                // keep a few per leg: the first two and then sparse later ones
                if nleg < self.max_samples && (nleg < 2 || ls.nontrivial % 97 == 0) {
                    let txt = serde_json::to_string(case_json).unwrap();
                    let shown = if txt.len() > 1500 {
                        json!({"truncated_json": trunc(&txt, 1500)})
                    } else {
                        case_json.clone()
                    };
                    self.out.samples.push(json!({"leg": leg, "case": shown, "classes": v.classes}));
                }
            }
        }
    }

    fn write_replay(&mut self, leg: &str, case_json: &Value, fail: &Fail) -> String {
        let dir = PathBuf::from(crate::verif_root()).join("replays").join(&self.prop);
        let _ = std::fs::create_dir_all(&dir);
        let safe: String = fail
            .sig
            .chars()
            .map(|c| if c.is_ascii_alphanumeric() || c == '-' || c == '_' || c == '.' { c } else { '_' })
            .take(80)
            .collect();
        let path = dir.join(format!("{}__{}.json", leg, safe));
        let body = json!({
            "property": self.prop,
            "leg": leg,
            "signature": fail.sig,
            "message": fail.msg,
            "seed": self.seed,
            "tier": self.tier.name(),
            "case": case_json,
        });
        // several shards may find the same signature: keep the smallest case
        let new_len = serde_json::to_string(case_json).unwrap().len();
        let keep_old = std::fs::read(&path)
            .ok()
            .and_then(|b| serde_json::from_slice::<Value>(&b).ok())
            .map(|old| old["signature"] == fail.sig.as_str() && serde_json::to_string(&old["case"]).unwrap().len() <= new_len)
            .unwrap_or(false);
        if !keep_old {
            let _ = std::fs::write(&path, serde_json::to_vec_pretty(&body).unwrap());
        }
        let p = path.to_string_lossy().to_string();
        self.out.failures.push(FailureRec {
            leg: leg.to_string(),
            sig: fail.sig.clone(),
            msg: fail.msg.clone(),
            replay: p.clone(),
        });
        p
    }

    /// used by legs whose search runs outside this process (the Hypothesis suite)
    pub fn add_hash(&mut self, h: u64) {
        self.hashes.insert(h);
    }

    pub fn record_failure(&mut self, leg: &str, case_json: &Value, fail: &Fail) {
        if self.is_known(&fail.sig) {
            *self.out.excluded_known.entry(fail.sig.clone()).or_insert(0) += 1;
        } else {
            self.write_replay(leg, case_json, fail);
        }
    }

    fn is_known(&self, sig: &str) -> bool {
        self.known.iter().any(|k| k == sig)
    }

    /// proptest-driven leg: `cases` generated cases for this shard
    pub fn run_leg<L: Leg>(&mut self, cases: u64, journal: bool, max_shrink: u32) {
        let strat = L::strategy(self.tier);
        self.run_strategy(L::NAME, strat, cases, journal, max_shrink, |c| L::check(c));
    }

    pub fn run_strategy<C, S, F>(&mut self, leg: &str, strat: S, cases: u64, journal: bool, max_shrink: u32, check: F)
    where
        C: Serialize + std::fmt::Debug + Clone,
        S: Strategy<Value = C>,
        F: Fn(&C) -> Verdict,
    {
        if cases == 0 {
            return;
        }
        let t0 = std::time::Instant::now();
        let seed = mix_seed(self.seed, &self.prop, leg, self.shard);
        let mut sb = [0u8; 32];
        for i in 0..4 {
            sb[i * 8..i * 8 + 8].copy_from_slice(&crate::util::splitmix(seed.wrapping_add(i as u64)).to_le_bytes());
        }
        let config = Config {
            cases: cases.min(u32::MAX as u64) as u32,
            failure_persistence: None,
            max_shrink_iters: max_shrink,
            max_global_rejects: 1,
            ..Config::default()
        };
        let mut runner = TestRunner::new_with_rng(config, TestRng::from_seed(RngAlgorithm::ChaCha, &sb));
        let counting = Cell::new(true);
        let first_sig: RefCell<Option<String>> = RefCell::new(None);
        let this = RefCell::new(&mut *self);
        let result = runner.run(&strat, |case| {
            let cj = serde_json::to_value(&case).unwrap();
            if journal {
                this.borrow().journal(leg, &cj);
            }
            let v = match guarded(|| check(&case)) {
                Ok(v) => v,
                Err(p) => {
                    let mut v = Verdict::new();
                    v.fail(panic_sig(&p), format!("panic escaped the check: {}", p));
                    v
                }
            };
            if counting.get() {
                this.borrow_mut().account(leg, &cj, &v, true);
            }
            match &v.fail {
                None => Ok(()),
                Some(fl) => {
                    if this.borrow().is_known(&fl.sig) {
                        if counting.get() {
                            *this.borrow_mut().out.excluded_known.entry(fl.sig.clone()).or_insert(0) += 1;
                        }
                        Ok(())
                    } else if counting.get() {
                        counting.set(false);
                        *first_sig.borrow_mut() = Some(fl.sig.clone());
                        Err(TestCaseError::fail(fl.sig.clone()))
                    } else if first_sig.borrow().as_deref() == Some(fl.sig.as_str()) {
                        Err(TestCaseError::fail(fl.sig.clone()))
                    } else {
                        // a different failure: not a valid shrink of ours
                        Ok(())
                    }
                }
            }
        });
        drop(this);
        if journal {
            self.clear_journal();
        }
        match result {
            Ok(()) => {}
            Err(TestError::Fail(_, case)) => {
                let cj = serde_json::to_value(&case).unwrap();
                let v = match guarded(|| check(&case)) {
                    Ok(v) => v,
                    Err(p) => {
                        let mut v = Verdict::new();
                        v.fail(panic_sig(&p), format!("panic escaped the check: {}", p));
                        v
                    }
                };
                let fl = v.fail.unwrap_or(Fail {
                    sig: first_sig.borrow().clone().unwrap_or_else(|| "unreproducible".into()),
                    msg: "shrunk case did not fail again when re-run (non-deterministic failure)".into(),
                });
                self.write_replay(leg, &cj, &fl);
            }
            Err(TestError::Abort(r)) => {
                self.out.inconclusive.push(format!("leg {} aborted by proptest: {}", leg, r));
            }
        }
        let ls = self.out.legs.entry(leg.to_string()).or_default();
        ls.wall_s += t0.elapsed().as_secs_f64();
    }

    /// bounded-exhaustive leg. `items` yields this shard's part of the finite domain, shortest
    /// first; stops at the first failure that is not a known finding (it is minimal by order).
    pub fn run_enum<C, I, F>(&mut self, leg: &str, bound: &str, items: I, journal: bool, check: F)
    where
        C: Serialize,
        I: Iterator<Item = C>,
        F: Fn(&C) -> Verdict,
    {
        let t0 = std::time::Instant::now();
        for case in items {
            let cj = || serde_json::to_value(&case).unwrap();
            if journal {
                self.journal(leg, &cj());
            }
            let v = match guarded(|| check(&case)) {
                Ok(v) => v,
                Err(p) => {
                    let mut v = Verdict::new();
                    v.fail(panic_sig(&p), format!("panic escaped the check: {}", p));
                    v
                }
            };
            // cheap accounting (no JSON unless needed)
            self.out.evaluations += 1;
            let ls = self.out.legs.entry(leg.to_string()).or_default();
            ls.evaluations += 1;
            for c in &v.classes {
                *self.out.classes.entry(c.clone()).or_insert(0) += 1;
            }
            if v.nontrivial {
                self.out.enum_nontrivial += 1;
                ls.nontrivial += 1;
                let nleg = self.out.samples.iter().filter(|s| s["leg"] == leg).count();
                if nleg < self.max_samples && (nleg < 1 || ls.nontrivial % 10007 == 0) {
                    self.out.samples.push(json!({"leg": leg, "case": cj(), "classes": v.classes}));
                }
            }
            if let Some(fl) = &v.fail {
                if self.is_known(&fl.sig) {
                    *self.out.excluded_known.entry(fl.sig.clone()).or_insert(0) += 1;
                } else {
                    self.write_replay(leg, &cj(), fl);
                    break;
                }
            }
        }
        if journal {
            self.clear_journal();
        }
        let ls = self.out.legs.entry(leg.to_string()).or_default();
        ls.exhaustive = true;
        ls.bound = bound.to_string();
        ls.wall_s += t0.elapsed().as_secs_f64();
    }

    /// replay tier: every stored regression case of this property (shard 0 only)
    pub fn run_regress(&mut self, replay: fn(&str, &Value) -> Option<Result<Verdict, String>>) {
        if self.shard != 0 {
            return;
        }
        let dir = PathBuf::from(crate::verif_root()).join("regress").join(&self.prop);
        let mut files: Vec<PathBuf> = match std::fs::read_dir(&dir) {
            Ok(rd) => rd.filter_map(|e| e.ok()).map(|e| e.path()).filter(|p| p.extension().map(|x| x == "json").unwrap_or(false)).collect(),
            Err(_) => return,
        };
        files.sort();
        for f in files {
            let body: Value = match std::fs::read(&f).ok().and_then(|b| serde_json::from_slice(&b).ok()) {
                Some(b) => b,
                None => continue,
            };
            let leg = body["leg"].as_str().unwrap_or("").to_string();
            self.journal(&leg, &body["case"]);
            let r = replay(&leg, &body["case"]);
            self.out.evaluations += 1;
            let ls = self.out.legs.entry("regress".to_string()).or_default();
            ls.evaluations += 1;
            match r {
                Some(Ok(v)) => {
                    if let Some(fl) = v.fail {
                        if self.is_known(&fl.sig) {
                            *self.out.excluded_known.entry(fl.sig.clone()).or_insert(0) += 1;
                        } else {
                            self.out.failures.push(FailureRec {
                                leg: format!("regress:{}", leg),
                                sig: fl.sig,
                                msg: fl.msg,
                                replay: f.to_string_lossy().to_string(),
                            });
                        }
                    }
                }
                Some(Err(e)) => self.out.inconclusive.push(format!("regress file {:?}: {}", f, e)),
                None => self.out.inconclusive.push(format!("regress file {:?}: unknown leg {}", f, leg)),
            }
        }
        self.clear_journal();
    }

    pub fn finish(mut self) -> ShardOut {
        self.out.nontrivial_hashes = self.hashes.into_iter().collect();
        self.out
    }
}

/// Re-execute one stored case through the plain check function (no proptest, no RNG).
pub fn replay_leg<L: Leg>(case: &Value) -> Result<Verdict, String> {
    let c: L::Case = serde_json::from_value(case.clone()).map_err(|e| format!("cannot decode case: {}", e))?;
    Ok(match guarded(|| L::check(&c)) {
        Ok(v) => v,
        Err(p) => {
            let mut v = Verdict::new();
            v.fail(panic_sig(&p), format!("panic escaped the check: {}", p));
            v
        }
    })
}

/// draw one value from a strategy with a fixed seed (used for corpus generation)
pub fn sample_strategy<S: Strategy>(strat: &S, seed: u64, n: usize) -> Vec<S::Value> {
    let mut sb = [0u8; 32];
    sb[..8].copy_from_slice(&seed.to_le_bytes());
    let mut runner = TestRunner::new_with_rng(Config::default(), TestRng::from_seed(RngAlgorithm::ChaCha, &sb));
    (0..n).map(|_| strat.new_tree(&mut runner).unwrap().current()).collect()
}
